"""C02 — park/unpark never loses a wake-up (structural clauses)."""
from lib import *
from props import shared
from props.shared import ao, atomic, A, AO, slot_waiter, slot_waker

EXPLANATION = ("R-SLOT (register-then-recheck / publish-then-take) on Park.wait_co and CancelImpl.co; R-ORDER inside "
               "park_timeout (token consumed first, kernel spin before arming, result consumed after); R-MO on Park.state / "
               "wait_kernel; condition-variable discipline of ThreadPark; R-WHO provenance of the Timeout/Canceled results")
EXPLANATION_2 = ('Park token: check_park answers !state.swap(false) (fast path `false` only behind the token), flag encodings of Park/SyncBlocker, ignore_cancel stores !b and yield_back checks exactly when enabled, the armed timer handle is kept and a linked handle goes to the timer thread, Drop for Park waits for wait_kernel, nothing runs after the nested self-wake; ThreadPark waits only without token and leaves only with token or timeout; Blocker/SyncBlocker/FastBlocker forwarding and cancellation-point wiring; AtomicOption::store stores Some(arg); every un-timed thread::park() of may is re-armed by a loop on a condition (F35)')
NOT_DECIDED = "absence of lost wake-ups over all interleavings (the Dekker shape is necessary, not sufficient); spurious wake-ups; fairness; elapsed time"
CONFIGS_QUICK = ["default"]
CONFIGS_THOROUGH = ["default", "nosteal", "bare"]

P = "may::park::Park"
SUB = "<may::park::Park as may::coroutine_impl::EventSource>::subscribe"
C = "may::cancel::CancelImpl"

YW = Call(r"may::yield_now::yield_with", transitive=False)

def check(ctx):
    # ---- Park.wait_co slot
    slot_waiter(ctx, SUB, ao("store", P + ".wait_co"), atomic("load", P + ".state"),
                call_true(A("load"), P + ".state"), ao("take", P + ".wait_co"),
                "park-slot", "Park::subscribe", "state.load() is true")
    ctx.order(SUB, ao("take", P + ".wait_co"), Call(r"may::coroutine_impl::run_coroutine|may::scheduler::Scheduler::schedule", transitive=False), "take-then-run",
              "the coroutine that subscribe resumes itself is the one taken back from the slot (single owner)", rule="R-SLOT")
    # stated on the primitive (taking the coroutine out of the slot), reached through the wake_up helper or directly
    WAKE = ao("take", P + ".wait_co")
    WK = P + "::wake_up" if ctx.prog.fn(P + "::wake_up") is not None else P + "::unpark_impl"
    ctx.order(WK, ao("take", P + ".wait_co", transitive=False), Call(r"may::coroutine_impl::run_coroutine|may::scheduler::Scheduler::schedule", transitive=False),
              "take-then-resume", "the coroutine that is resumed is the one taken from the slot (single owner)", rule="R-SLOT")
    slot_waker(ctx, P + "::unpark_impl", atomic("swap", P + ".state"), WAKE, "unpark",
               "Park::unpark_impl")
    ctx.guarded(P + "::unpark_impl", WAKE, call_false(A("swap"), P + ".state"), "wake-only-first-token",
                "only the unpark that flips the token false→true wakes (one wake per token)", rule="R-SLOT",
                pred_label="edge `state.swap(true)` returned false")
    # the swap stores `true`
    f = ctx.fn("R-SLOT", P + "::unpark_impl", "swap-true")
    if f is not None:
        ok = False; site = None
        for pt in ctx.an.sites(f, atomic("swap", P + ".state"), "must"):
            site = pt
            ok = const_int(f, f.node(pt)["args"][1]) == 1
        ctx.ob("R-SLOT", P + "::unpark_impl", "swap-true", ok, "unpark makes the token available (swap(true))" if ok else
               "unpark_impl no longer stores `true` into Park.state", f.where(site))
    # ---- cancel slot
    slot_waiter(ctx, SUB, Call(re.escape(C) + "::set_co"), Call(re.escape(C) + "::is_canceled"),
                call_true(re.escape(C) + "::is_canceled"), Call(re.escape(C) + "::cancel"),
                "cancel-slot", "Park::subscribe (cancel registration)", "is_canceled() is true")
    _fs = ctx.prog.fn(SUB)
    if _fs is not None and shared.recheck_takes_own_slot(ctx, _fs):
        ctx.ob("R-SLOT", SUB, "publish-co-before-cancel-registration", True, "the re-check takes the coroutine out of wait_co itself: the registration does not have to follow the publication", _fs.where(), nontrivial=False)
    else:
        ctx.order(SUB, ao("store", P + ".wait_co"), Call(re.escape(C) + "::set_co"), "publish-co-before-cancel-registration",
                  "the coroutine is in wait_co before the cancel side is given a handle to that slot (the re-check delivers a raced cancel through cancel(), which consumes the registration first)", rule="R-SLOT")
    slot_waker(ctx, C + "::cancel", atomic("fetch_or", C + ".state"), ao("take", C + ".co"), "cancel", "CancelImpl::cancel")
    ctx.must_follow(C + "::cancel", atomic("fetch_or", C + ".state"), Call(r"may::cancel::CancelIo::cancel|<.* as may::cancel::CancelIo>::cancel", transitive=False), "cancel-always-proceeds",
                    "cancel() always goes on to wake the target after setting the bit, also when the bit was already set: the subscribers' own re-check calls cancel() with the bit set "
                    "(a cancel that landed during registration is delivered by that second call)")
    ctx.order(C + "::cancel", ao("take", C + ".co"), Call(r"may::yield_now::set_co_para"), "take-then-inject",
              "the Canceled result is injected only into a coroutine obtained by take()", rule="R-SLOT")
    ctx.order(C + "::cancel", Call(r"may::yield_now::set_co_para"), Call(r"may::scheduler::Scheduler::schedule", transitive=False), "inject-then-schedule",
              "the result is set before the coroutine can run again")

    # ---- park_timeout ordering
    PT = P + "::park_timeout"
    ctx.order(PT, Call(re.escape(P) + "::check_park"), YW, "token-first",
              "a pending token is consumed before blocking (unpark-before-park is not lost)")
    ctx.guarded(PT, YW, call_true(re.escape(P) + "::check_park"), "block-only-without-token",
                "park blocks only when check_park found no token", pred_label="edge `check_park()` is true")
    ctx.guarded(PT, YW, call_false(A("load"), P + ".wait_kernel"), "kernel-spin",
                "a new yield waits until the previous subscribe has left the Park (wait_kernel false)",
                pred_label="edge `wait_kernel.load()` is false")
    ctx.order(PT, Call(r"may::sync::atomic_dur::AtomicDuration::store", on=P + ".timeout"), YW,
              "timeout-before-yield", "the timeout for this park is stored before subscribe can read it")
    ctx.must_follow(PT, YW, Call(re.escape(P) + "::check_park"), "clear-token-after",
                    "the trigger state is cleared after every resume")
    ctx.must_follow(PT, YW, Call(re.escape(P) + "::set_timeout_handle"), "disarm-after",
                    "the timer is disarmed after every resume (a stale timer must not wake a later park)")
    ctx.must_follow(PT, YW, Call(r"may::yield_now::get_co_para"), "consume-result",
                    "the passed-in result is consumed after every resume")
    # result mapping: Timeout only for TimedOut, Canceled only for Other
    gp = r"may::yield_now::get_co_para"
    def kind_is(name):
        def p(a):
            return a.kind == "variant" and a.name == name and root_of(a.origin)[0] == "call" and root_of(a.origin)[2] == "std::io::Error::kind"
        return p
    ctx.guarded(PT, Agg("may::park::ParkError", "Timeout"), kind_is("TimedOut"), "timeout-only-for-timedout",
                "park reports Timeout only when the resumer injected ErrorKind::TimedOut", pred_label="edge `err.kind()` is TimedOut")
    ctx.guarded(PT, Agg("may::park::ParkError", "Canceled"), kind_is("Other"), "canceled-only-for-other",
                "park reports Canceled only when the resumer injected the cancel error", pred_label="edge `err.kind()` is Other")
    # check_park: returns "need park" only when the token was not set; clears it
    CP = P + "::check_park"
    f = ctx.fn("R-ENUM", CP, "check-park/answer-is-token-absent")
    if f is not None:
        rv = simplify(trace_local(f, 0))
        alts = [simplify(a) for a in rv[2]] if rv[0] == "phi" else [rv]
        def not_swap(o):
            return o[0] == "un" and o[1] == "Not" and simplify(o[2])[0] == "call" and re.fullmatch(A("swap"), simplify(o[2])[2] or "") and \
                   receiver_leaf(f, f.term(simplify(o[2])[1])) == P + ".state"
        def const_false(o):
            return o[0] == "const" and o[2] is not None and int(o[2]) == 0
        bad = [a for a in alts if not (not_swap(a) or const_false(a))]
        ok = not bad and any(not_swap(a) for a in alts)
        ctx.ob("R-ENUM", CP, "check-park/answer-is-token-absent", ok, "check_park answers `need to block` with !state.swap(false) (or `false` on its fast path): it blocks exactly when no token was pending" if ok else
               "check_park's answer is %s: it must be `!state.swap(false)` or the constant `false` of the fast path - answering `block` with a token pending loses that wake-up, "
               "answering `don't block` without one makes Blocker::park return Ok although nobody unparked (the sync primitives take that as a hand-off)" % [fmt_origin(a) for a in alts], f.where())
        # the constant `false` only behind the token-present edge, where the token is also consumed
        cf = [pt for pt in f.points() if not f.is_term(pt) and f.node(pt).get("s") == "=" and not f.node(pt)["l"]["p"] and f.node(pt)["l"]["l"] == 0 and
              f.node(pt)["rv"]["r"] == "use" and const_int(f, f.node(pt)["rv"]["o"]) == 0]
        if cf:
            ctx.guarded(CP, lambda g: cf, call_true(A("load"), P + ".state"), "check-park/fast-path-only-with-token", "the fast path answers `don't block` only when it saw the token", rule="R-ENUM",
                        pred_label="edge `state.load()` is true")
            ctx.must_follow(CP, None, Call(A("(store|swap)"), on=P + ".state", transitive=False), "check-park/fast-path-consumes-token", "the fast path consumes the token it saw", rule="R-PAIR",
                            edge=call_true(A("load"), P + ".state"), edge_label="edge `state.load()` is true")
    shared.flag_values(ctx, [("store", CP, P + ".state", 0, "check-park/clears-token", "check_park leaves the token cleared"),
                             ("init", P + "::new", P + ".state", 0, "park/starts-without-token", "a fresh Park has no pending token (its first park blocks until an unpark)"),
                             ("init", P + "::new", P + ".check_cancel", 1, "park/starts-cancellable", "a fresh Park is a cancellation point"),
                             ("store", P + "::delay_drop", P + ".wait_kernel", 1, "park/delay-drop-sets-wait-kernel", "subscribe marks the Park as in use by the kernel side"),
                             ("store", "<may::park::DropGuard as std::ops::Drop>::drop", P + ".wait_kernel", 0, "park/guard-drop-clears-wait-kernel", "leaving subscribe releases the Park")])
    # ignore_cancel(b) stores !b, yield_back checks the cancel exactly when the flag is set
    f = ctx.fn("R-ENUM", P + "::ignore_cancel", "ignore-cancel/stores-negation")
    if f is not None:
        vs = [simplify(trace_operand(f, f.node(pt)["args"][1])) for pt in sorted(ctx.an.sites(f, Call(A("store"), on=P + ".check_cancel", transitive=False), "must"))]
        ok = bool(vs) and all(v[0] == "un" and v[1] == "Not" and simplify(v[2])[0] == "arg" for v in vs) and ctx.an.must(f, Call(A("store"), on=P + ".check_cancel", transitive=False))
        ctx.ob("R-ENUM", P + "::ignore_cancel", "ignore-cancel/stores-negation", ok, "ignore_cancel(b) always stores check_cancel = !b" if ok else
               "ignore_cancel does not (always) store `!ignore` into check_cancel: a primitive that asked to handle the cancel itself is killed inside park (its waiter entry, permit or lock hand-off is stranded), "
               "or a plain park stops being a cancellation point", f.where())
    YB = "<may::park::Park as may::coroutine_impl::EventSource>::yield_back"
    CC = Call(re.escape(C) + "::check_cancel", transitive=False)
    ctx.guarded(YB, CC, call_true(A("load"), P + ".check_cancel"), "yield-back/check-only-if-enabled", "Park::yield_back raises the Cancel panic only when the owner did not ask to ignore it",
                pred_label="edge `check_cancel.load()` is true")
    ctx.must_follow(YB, None, CC, "yield-back/check-if-enabled", "Park::yield_back checks the cancel whenever the Park is a cancellation point", edge=call_true(A("load"), P + ".check_cancel"),
                    edge_label="edge `check_cancel.load()` is true")
    # the armed timer's handle is kept (so that the resume can disarm it) and a linked handle is always handed to the timer thread
    f = ctx.fn("R-PAIR", SUB, "arm/handle-kept")
    if f is not None:
        ok = False; site = None
        for pt in sorted(ctx.an.sites(f, Call(re.escape(P) + "::set_timeout_handle", transitive=False), "must")):
            site = pt
            if shared.origin_reaches_call(f, trace_operand(f, f.node(pt)["args"][1]), r"may::scheduler::Scheduler::add_timer|may::timeout_list::TimerThread::add_timer"): ok = True
        ok = ok and ctx.an.must(f, Call(re.escape(P) + "::set_timeout_handle", transitive=False))
        ctx.ob("R-PAIR", SUB, "arm/handle-kept", ok, "subscribe always stores the handle of the timer it armed in the Park (the resume disarms through it)" if ok else
               "Park::subscribe does not keep the handle of the timer it armed: the timer cannot be removed after an unpark and fires into a later park on the same Park (Timeout before its deadline)", f.where(site))
    RTH = P + "::remove_timeout_handle"
    if ctx.prog.fn(RTH) is not None:
        DT = Call(r"may::scheduler::Scheduler::del_timer", transitive=False)
        ctx.must_follow(RTH, None, DT, "disarm/linked-handle-goes-to-timer-thread", "a handle that is still linked in the timer list is handed to the timer thread for removal", edge=call_true(r"may_queue::mpsc_list_v1::Entry::is_link"),
                        edge_label="edge `h.is_link()` is true")
    # Drop for Park leaves only when the kernel side has left the Park
    PD = "<may::park::Park as std::ops::Drop>::drop"
    ctx.guarded(PD, Ev("ret"), call_false(A("load"), P + ".wait_kernel"), "drop/waits-for-kernel", "a Park is freed only after subscribe has left it (wait_kernel observed false)", rule="R-EXIT",
                pred_label="edge `wait_kernel.load()` is false")
    # after subscribe resumed the coroutine itself nothing else happens in it: the coroutine may have finished and freed the Park
    f = ctx.fn("R-ORDER", SUB, "self-wake/run-is-last")
    if f is not None:
        runs = ctx.an.sites(f, Call(r"may::coroutine_impl::run_coroutine", transitive=False), "must")
        if not runs:
            ctx.ob("R-ORDER", SUB, "self-wake/run-is-last", True, "subscribe does not run a coroutine nested", f.where(), nontrivial=False)
        else:
            r = ctx.an.reach(f, [q for x in runs for q in ctx.an.after(f, x)])
            late = sorted(x for x in r if f.is_term(x) and f.node(x)["t"] == "call" and not (callee_name(f.node(x)) or "").startswith(("std::mem::drop", "core::mem::drop")))
            ctx.ob("R-ORDER", SUB, "self-wake/run-is-last", not late, "after running the re-taken coroutine nested, subscribe only returns" if not late else
                   "Park::subscribe goes on (%s) after it ran the coroutine nested: that coroutine may have parked again or finished and dropped the Park - the later accesses race with it / touch freed memory" %
                   (callee_name(f.node(late[0])) if late else ""), f.where(late[0] if late else sorted(runs)[0]))
    ctx.mo_floor(P + ".state", ("swap",), "ACQREL", "state-swap", "the unparker's writes are handed to the parker through the token",
                 only_in=re.escape(P) + r"::unpark_impl")
    ctx.mo_floor(P + ".state", ("load",), "ACQ", "state-load", "a token observed by load must carry the unparker's writes", min_sites=2)
    ctx.mo_floor(P + ".wait_kernel", ("store",), "REL", "wait-kernel-store", "subscribe's accesses to the Park happen before it is reused/dropped", min_sites=2)
    ctx.mo_floor(P + ".wait_kernel", ("load",), "ACQ", "wait-kernel-load", "…and are visible to the spinning owner", min_sites=2)
    ctx.mo_floor(C + ".state", ("fetch_or",), "REL", "cancel-state-set", "the cancel bit is published before the slot is taken")
    ctx.mo_floor(C + ".state", ("load",), "ACQ", "cancel-state-load", "is_canceled must see the bit set before the waker's take", min_sites=2)

    # ---- ThreadPark: condition-variable discipline
    TP = "may::sync::blocking::ThreadPark"
    def token_write(val):
        def w(g, pt, n):
            if n["s"] != "=": return False
            o = simplify(trace_place(g, n["l"]))
            r = o
            while r[0] in ("deref", "ref"): r = r[1]
            if not (r[0] == "call" and r[2] and r[2].endswith("Mutex::lock")): return False
            if receiver_leaf(g, g.term(r[1])) != TP + ".lock": return False
            rv = n["rv"]
            return rv["r"] == "use" and const_int(g, rv["o"]) == val
        return w
    f = ctx.fn("R-ORDER", TP + "::unpark", "token-then-notify")
    if f is not None:
        wr = [pt for pt in f.points() if not f.is_term(pt) and token_write(1)(f, pt, f.node(pt))]
        nt = ctx.an.sites(f, Call(r"parking_lot::(condvar::)?Condvar::notify_(one|all)", on=TP + ".cvar"), "may")
        lk = ctx.an.sites(f, Call(r"parking_lot::lock_api::Mutex::lock|lock_api::mutex::Mutex::lock", on=TP + ".lock"), "must")
        if not wr or not nt or not lk:
            ctx.missing("R-ORDER", TP + "::unpark", "token-then-notify", "token write (%d) / notify (%d) / lock (%d) not found" % (len(wr), len(nt), len(lk)))
        else:
            r = ctx.an.reach(f, [Point(0, 0)], blocked=set(wr))
            bad = [n for n in nt if n in r]
            r2 = ctx.an.reach(f, [Point(0, 0)], blocked=lk)
            bad2 = [n for n in list(nt) + wr if n in r2]
            ctx.ob("R-ORDER", TP + "::unpark", "token-then-notify", not bad and not bad2,
                   "ThreadPark::unpark sets the token under the lock before notifying" if not bad and not bad2 else
                   "ThreadPark::unpark notifies without having set the token under the lock: the woken thread re-checks, sees no token and sleeps again",
                   f.where(sorted(nt)[0]))
    f = ctx.fn("R-EXIT", TP + "::park_timeout", "wait-in-loop")
    if f is not None:
        waits = ctx.an.sites(f, Call(r"parking_lot::(condvar::)?Condvar::wait(_for|_until)?", on=TP + ".cvar"), "may")
        clr = [pt for pt in f.points() if not f.is_term(pt) and token_write(0)(f, pt, f.node(pt))]
        if not waits or not clr:
            ctx.missing("R-EXIT", TP + "::park_timeout", "wait-in-loop", "cvar.wait (%d) / token clear (%d) not found" % (len(waits), len(clr)))
        else:
            # token cleared on every path to return
            r = ctx.an.reach(f, [Point(0, 0)], blocked=set(clr))
            bad = [x for x in f.ret_points() if x in r]
            ctx.ob("R-PAIR", TP + "::park_timeout", "token-cleared", not bad,
                   "the token is consumed on every path to return" if not bad else "ThreadPark::park_timeout can return without consuming the token (the next park returns at once)", f.where(clr[0]))
            # after each wait, the return is reachable only through a re-read of the token (loop head) or the timed_out edge
            def tokread(g):
                out = []
                for pt in g.points():
                    n = g.node(pt)
                    if g.is_term(pt) or n["s"] != "=": continue
                    for pl in rvalue_places(n["rv"]):
                        o = simplify(trace_place(g, pl))
                        rr = o
                        while rr[0] in ("deref", "ref"): rr = rr[1]
                        if rr[0] == "call" and rr[2] and rr[2].endswith("Mutex::lock") and o != rr:
                            out.append(pt)
                return out
            reads = set(tokread(f))
            ok = bool(reads)
            for w in sorted(waits):
                nm = callee_name(f.node(w))
                blockers = set(reads)
                r = ctx.an.reach(f, ctx.an.after(f, w), blocked=blockers,
                                 blocked_edges=ctx.edge_blocker(f, call_true(r"parking_lot::(condvar::)?WaitTimeoutResult::timed_out"))[0])
                if any(x in r for x in f.ret_points()):
                    ok = False
            ctx.ob("R-EXIT", TP + "::park_timeout", "wait-in-loop", ok,
                   "after cvar.wait* the function returns only through a re-read of the token or the timed_out edge" if ok else
                   "ThreadPark::park_timeout can return Ok after a (possibly spurious) cvar wake-up without re-reading the token", f.where(sorted(waits)[0]))
            # Timeout only behind timed_out()
            ctx.guarded(TP + "::park_timeout", Agg("may::park::ParkError", "Timeout"), call_true(r"parking_lot::(condvar::)?WaitTimeoutResult::timed_out"),
                        "timeout-only-when-timed-out", "a thread park reports Timeout only when the condvar wait timed out", pred_label="edge `timed_out()` is true")
    # ---- provenance of injected results (R-WHO)
    ctx.who_may_call(r"may::yield_now::set_co_para", {"may::scheduler::init_scheduler", "may::io::sys::timeout_handler", C + "::cancel", SUB, "may::io::sys::EventData::store_co"},
                     "result-injectors", "only the timer handlers, the subscribers' own deadline re-check (TimedOut) and cancel (Other) inject a result into a suspended coroutine", min_callers=2)
    # the subscriber's own TimedOut injection only behind `now() >= deadline` and a re-taken coroutine
    _sub = ctx.prog.fn(SUB)
    ge = shared.deadline_passed_pred(ctx, _sub) if _sub is not None else (lambda a: False)
    ctx.guarded(SUB, Call(r"may::yield_now::set_co_para", transitive=False), ge, "deadline-recheck/timedout-only-after-deadline",
                "Park::subscribe delivers Timeout itself only when the deadline recorded before arming has passed", pred_label="edge `deadline.is_some_and(|t| now() >= t)`")
    ctx.guarded(SUB, Call(r"may::yield_now::set_co_para", transitive=False), variant_of_call(re.escape(AO) + "take", "Some"), "deadline-recheck/only-if-retaken",
                "…and only into a coroutine it took back out of wait_co", pred_label="edge `wait_co.take()` is Some")
    f = ctx.fn("R-ORDER", SUB, "deadline-recheck/after-publish")
    if f is not None:
        st = ctx.an.sites(f, ao("store", P + ".wait_co"), "must")
        chk = ctx.an.sites(f, Call(r"(std|core)::option::Option::is_some_and", transitive=False), "must")
        arm = ctx.an.sites(f, Call(r"may::scheduler::Scheduler::add_timer", transitive=True), "may")
        okd = bool(st) and bool(chk) and bool(arm) and all(c in ctx.an.reach(f, [q for s0 in st for q in ctx.an.after(f, s0)]) for c in chk)
        ctx.ob("R-ORDER", SUB, "deadline-recheck/after-publish", okd,
               "Park::subscribe records the deadline when arming and re-checks it after publishing the coroutine (a timer that fired in between found the slot empty)" if okd else
               "Park::subscribe arms the timer before publishing the coroutine and has no deadline re-check after the store: a subscriber stalled ≥ timeout loses the timeout for good", f.where())
    shared.park_deadline_sampled_before_arm(ctx)
    shared.check_cancel_consumes(ctx)
    shared.no_panicking_instant_arithmetic(ctx)
    shared.no_nested_run_under_guard(ctx)
    ctx.who_may_call(r"generator::(gen_impl|yield_)::co_set_para|generator::co_set_para", {"may::yield_now::yield_with"},
                     "self-injection", "only yield_with's cancelled short-circuit injects a result into the running coroutine")
    ctx.guarded("may::yield_now::yield_with", Call(r"generator::(\w+::)*co_set_para"), call_true(re.escape(C) + "::is_canceled"),
                "canceled-only-if-canceled", "yield_with injects Canceled only behind `is_canceled()`", pred_label="edge `is_canceled()` is true")
    shared.injected_kinds(ctx)
    # every resumer obtains the coroutine by take() from a shared slot: the slot's API admits no second owner
    ms = set()
    for im in ctx.prog.impls:
        if norm(im.get("self_adt") or "") == "may::sync::atomic_option::AtomicOption" and not im.get("trait"):
            ms |= set(m["n"] for m in im["methods"])
    ok = ms == {"none", "some", "store", "take", "clear"}
    ctx.ob("R-API", "may::sync::atomic_option::AtomicOption", "surface", ok,
           "AtomicOption exposes exactly {none, some, store, take, clear}: unpark, timer and cancel cannot both resume the coroutine" if ok else
           "AtomicOption's inherent API is %s: an accessor beyond move-in/move-out lets two resumers obtain the same coroutine" % sorted(ms), None)
    shared.park_api_forwarding(ctx)
    shared.thread_park_token_rules(ctx)
    shared.blocker_wiring_rules(ctx)
    shared.atomic_option_rules(ctx)
    ctx.import_rules("C08", r"^encode/|^decode/")
    ctx.import_rules("C15", r"^consume-after:")
    shared.thread_park_in_loop(ctx)
