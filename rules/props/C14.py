"""C14 — a scope is never left while one of its coroutines is still running (structural clauses)."""
from lib import *
from props import shared
from props.shared import *
import witness

EXPLANATION = ("R-PAIR scope() joins after its body and Drop for Scope joins on the unwind path, drop_all leaves only when no dtor is "
               "left, every scoped spawn defers a join of exactly the coroutine it spawned; R-EXIT Join::wait returns only after "
               "observing state==false; the scoped join and the cqueue drain run inside a cancel-disabled region (they are not "
               "cancellation points) and Cqueue::drop leaves only through Finished; R-TYPE lifetime witnesses")
EXPLANATION_2 = ('every join of a scoped child in may::scoped is cancel-masked, JoinState::Joined only set by JoinState::join which takes its own state, explicit join waits then takes, the child stores its result; cancel-state encoding imported; the join of a select coroutine in Cqueue::check_panic is cancel-masked (F26); the scope functions run the user closure under catch_unwind so that their blocking destructor is never a landing pad (F36, F37)')
NOT_DECIDED = "that children actually terminate (liveness); thread::panicking() being per-thread while coroutines migrate, except where it is made harmless structurally (the scope functions never block in a landing pad)"
CONFIGS_QUICK = ["default"]
NEEDS_TARGET = True

SC = "may::scoped"
CQ = "may::cqueue::Cqueue"
GUARD = Call(r"may::cancel::CancelDisableGuard::new", transitive=False)

def check(ctx):
    DA = Call(re.escape(SC) + "::Scope::drop_all", transitive=False)
    f = ctx.fn("R-PAIR", SC + "::scope", "scope/join-after-body")
    if f is not None:
        bodies = shared.user_body_sites(ctx, f)
        das = ctx.an.sites(f, DA, "must")
        if not bodies:
            ctx.missing("R-PAIR", SC + "::scope", "scope/join-after-body", "scope() does not run the user's closure (directly or under catch_unwind)")
        else:
            r = ctx.an.reach(f, [q for b, _ in bodies for q in ctx.an.after(f, b)], blocked=das)
            bad = [x for x in f.ret_points() if x in r]
            ctx.ob("R-PAIR", SC + "::scope", "scope/join-after-body", bool(das) and not bad,
                   "scope() joins all its coroutines (drop_all) after the body returned, outside of any destructor (a re-raised child panic must not skip the remaining joins)" if das and not bad else
                   "scope() can return after its body without calling drop_all", f.where(bodies[0][0]))
            # a panic of the body also ends in the join: the body runs under catch_unwind and drop_all follows on the normal path (F37), or - the old
            # shape, which rule no-blocking-landing-pad rejects for another reason - the unwind edge of the body call leads to the Drop of the Scope
            ok = False; site = bodies[0][0]
            for b, caught in bodies:
                t = f.node(b)
                if caught: ok = bool(das) and not bad
                elif isinstance(t.get("uw"), int):
                    ru = ctx.an.reach(f, [Point(t["uw"], 0)], unwind=True)
                    ok = any(f.is_term(p) and f.node(p)["t"] == "drop" and "may::scoped::Scope" in f.node(p)["ty"] for p in ru)
            ctx.ob("R-PAIR", SC + "::scope", "scope/unwind-drops-scope", ok, "a panic in the scope body still ends in the join of every child (caught, then drop_all; or the drop of the Scope value)" if ok else
                   "a panic of the scope body leaves scope() without joining: the owner's frame is gone while children run", f.where(site))
    _f = ctx.prog.fn(SC + "::scope")
    _b = shared.user_body_sites(ctx, _f) if _f is not None else []
    if _b and all(c for _, c in _b) and "<may::scoped::Scope as std::ops::Drop>::drop" not in ctx.prog.fns:
        # (F37) the body runs under catch_unwind and drop_all follows on every path (scope/join-after-body): nothing can be left for a destructor
        ctx.ob("R-PAIR", SC + "::scope", "scope/drop-joins", True, "scope() itself joins on every path (the body's panic is caught): no Drop for Scope is needed", _f.where(), nontrivial=False)
    elif _b and all(c for _, c in _b) and not ctx.an.may(ctx.prog.fns["<may::scoped::Scope as std::ops::Drop>::drop"], DA):
        ctx.ob("R-PAIR", SC + "::scope", "scope/drop-joins", True, "scope() itself joins on every path (the body's panic is caught): Drop for Scope has nothing left to join", _f.where(), nontrivial=False)
    else:
        ctx.must_call("<may::scoped::Scope as std::ops::Drop>::drop", DA, "scope/drop-joins", "Drop for Scope joins all remaining coroutines (the unwind path of scope())")
    D = SC + "::Scope::drop_all"
    ctx.guarded(D, Ev("ret"), variant_of_call(r"(std|core)::option::Option::take", "None"), "scope/drop-all-runs-every-dtor", "drop_all returns only when no deferred join is left",
                pred_label="edge `dtors.take()` is None")
    shared.scope_dtor_chain_rules(ctx)
    # spawn_impl defers a join of the coroutine it spawned
    SI = SC + "::Scope::spawn_impl"
    f = ctx.fn("R-PAIR", SI, "scope/spawn-defers-join")
    if f is not None:
        cls = [g for g in ctx.prog.closures_of(f) if ctx.an.may(g, Call(re.escape(SC) + "::JoinState::join"))]
        ok = len(cls) == 1 and ctx.an.must(cls[0], Call(re.escape(SC) + "::JoinState::join"))
        ctx.ob("R-PAIR", SI, "scope/deferred-closure-joins", ok, "the closure deferred by spawn_impl always joins" if ok else "spawn_impl's deferred closure does not (always) call JoinState::join", f.where())
        ctx.must_follow(SI, Call(re.escape(SC) + "::spawn_unsafe_builder", transitive=False), Call(re.escape(SC) + "::Scope::defer", transitive=False), "scope/spawn-defers-join",
                        "every scoped spawn registers its join with the scope before returning the handle")
        # the handle joined is the one of the coroutine just spawned: JoinState::Running(join_handle) built from spawn's result
        okh = False
        for pt in f.points():
            n = f.node(pt)
            if not f.is_term(pt) and n["s"] == "=" and n["rv"]["r"] == "agg" and n["rv"].get("ak") == "adt" and norm(n["rv"]["adt"]) == SC + "::JoinState" and n["rv"]["var"] == "Running":
                o = simplify(trace_operand(f, n["rv"]["ops"][0]))
                okh = o[0] == "call" and o[2] == SC + "::spawn_unsafe_builder"
        ctx.ob("R-PAIR", SI, "scope/joins-own-child", okh, "the deferred JoinState holds the JoinHandle returned by this very spawn" if okh else
               "the JoinState built in spawn_impl does not hold the handle of the coroutine it just spawned", f.where())
    # JoinState::join is not a cancellation point
    JS = SC + "::JoinState::join"
    ctx.order(JS, GUARD, Call(r"may::join::JoinHandle::join", transitive=False), "scope/join-cancel-masked",
              "the scoped join runs with the owner's cancel disabled: a Cancel panic here would drop the already moved-out handle (child detached) and the "
              "remaining joins would return at once while unwinding", rule="R-EXIT")
    f = ctx.fn("R-EXIT", JS, "scope/guard-released-after-join")
    if f is not None:
        js = ctx.an.sites(f, Call(r"may::join::JoinHandle::join", transitive=False), "must")
        gd = set(pt for pt in f.points() if f.is_term(pt) and ((f.node(pt)["t"] == "drop" and "CancelDisableGuard" in f.node(pt)["ty"]) or
                 (f.node(pt)["t"] == "call" and (callee_name(f.node(pt)) or "") in ("std::mem::drop", "core::mem::drop") and f.node(pt)["args"] and not f.is_cleanup(pt.bb)
                  and "CancelDisableGuard" in (type_of_place(f, (f.node(pt)["args"][0].get("m") or f.node(pt)["args"][0].get("c") or {"l": 0, "p": []})) or ""))))
        r = ctx.an.reach(f, [Point(0, 0)], blocked=js)
        bad = [g for g in gd if g in r]
        ctx.ob("R-EXIT", JS, "scope/guard-released-after-join", bool(gd) and not bad, "the cancel-disable guard lives across the join" if gd and not bad else
               "the cancel-disable guard is released before the join", f.where(sorted(gd)[0] if gd else None))
    # ... and that holds for every join of a scoped child, wherever in the module it is written (an explicit ScopedJoinHandle::join is a
    # join of the scope owner too: if it could be cancelled, the handle - already taken out of the shared state - is dropped by the unwind,
    # the deferred join finds nothing to wait for and the scope is left while the child runs)
    JH = Call(r"may::join::JoinHandle::join", transitive=False)
    # (F26) the same holds for cqueue::scope: Cqueue::check_panic joins the select coroutine whose handle it took out of `selectors`
    joiners = sorted(g.id for g in ctx.prog.fns.values() if (g.id.startswith(SC + "::") or g.id.startswith("may::cqueue::")) and g.id != JS and ctx.an.sites(g, JH, "must"))
    for gid in joiners:
        ctx.order(gid, GUARD, JH, "scope/every-child-join-cancel-masked", "a join of a scoped child outside JoinState::join also runs with the owner's cancel disabled", rule="R-EXIT")
        g = ctx.prog.fn(gid)
        js = ctx.an.sites(g, JH, "must")
        def _guard_drop(pt, g=g):
            if not g.is_term(pt) or g.is_cleanup(pt.bb): return False
            n = g.node(pt)
            if n["t"] == "drop": return "CancelDisableGuard" in n["ty"]
            return (n["t"] == "call" and (callee_name(n) or "") in ("std::mem::drop", "core::mem::drop") and n["args"]
                    and "CancelDisableGuard" in (type_of_place(g, (n["args"][0].get("m") or n["args"][0].get("c") or {"l": 0, "p": []})) or ""))
        gd = set(pt for pt in g.points() if _guard_drop(pt))
        r = ctx.an.reach(g, [Point(0, 0)], blocked=js)
        early = [x for x in gd if x in r]
        ctx.ob("R-EXIT", gid, "scope/every-child-join-guard-lives-across", bool(gd) and not early, "the cancel-disable guard lives across the join" if gd and not early else
               "the cancel-disable guard is released before the join (or never held)", g.where(sorted(js)[0]) if js else g.where())
    if not any(j.startswith("may::cqueue::") for j in joiners):
        ctx.missing("R-EXIT", "may::cqueue", "scope/every-child-join-cancel-masked", "no function of may::cqueue joins a select coroutine's JoinHandle any more")
    ctx.ob("R-EXIT", SC, "scope/child-joins-enumerated", True, "functions of may::scoped that join a child's JoinHandle directly: %s" % ([JS] + joiners), None, nontrivial=False)
    # the shared state says `Joined` only where the join is performed
    makers = sorted(set(g.id.split("::{closure")[0] for g in ctx.prog.fns.values() if g.id.startswith("may::") and ctx.an.sites(g, Agg(SC + "::JoinState", "Joined", transitive=False), "may")))
    okm = makers == [JS]
    ctx.ob("R-WHO", SC + "::JoinState", "scope/joined-only-set-by-join", okm, "JoinState::Joined is constructed only in JoinState::join (which then joins under the cancel mask)" if okm else
           "JoinState::Joined is constructed in %s: the deferred join of the scope sees `Joined` and does not wait although nobody has finished joining the child" % [m for m in makers if m != JS], None)
    ctx.guarded(JS, Call(r"std::panic::resume_unwind", transitive=True), call_false(r"std::thread::panicking"), "scope/no-double-panic",
                "a child's panic is re-raised in the owner only when the owner is not already unwinding", pred_label="edge `thread::panicking()` is false")
    shared.join_rules(ctx)
    # CancelDisableGuard balance
    ctx.must_call("may::cancel::CancelDisableGuard::new", Call(r"may::cancel::CancelImpl::disable_cancel|may::coroutine_impl::is_coroutine"), "guard/new", "the guard disables the cancel of the current coroutine")
    ctx.guarded("may::cancel::CancelDisableGuard::new", Call(r"may::cancel::CancelImpl::disable_cancel", transitive=False), call_true(r"may::coroutine_impl::is_coroutine"), "guard/only-in-coroutine",
                "cancel data is touched only in coroutine context", pred_label="edge `is_coroutine()` is true")
    GD = "<may::cancel::CancelDisableGuard as std::ops::Drop>::drop"
    ctx.must_follow(GD, None, Call(r"may::cancel::CancelImpl::enable_cancel", transitive=False), "guard/drop-enables", "dropping the guard re-enables the cancel it disabled",
                    edge=lambda a: a.kind == "variant" and a.name == "Some", edge_label="edge `self.0` is Some")
    # ---- cqueue
    CD = "<may::cqueue::Cqueue as std::ops::Drop>::drop"
    POLL = Call(re.escape(CQ) + "::poll", transitive=True)
    ctx.order(CD, GUARD, POLL, "cqueue/drain-cancel-masked", "the final drain of a cqueue runs with the owner's cancel disabled (a Cancel panic out of Drop would free the Cqueue while select coroutines still use it)", rule="R-EXIT")
    ctx.guarded(CD, Ev("ret"), lambda a: a.kind == "variant" and a.name == "Finished", "cqueue/drop-leaves-only-when-finished",
                "Drop for Cqueue returns only after poll reported Finished", pred_label="edge `poll()` is Err(Finished)")
    f = ctx.fn("R-ORDER", CD, "cqueue/cancel-then-drain")
    if f is not None:
        # the cancel loop may be a combinator with a closure (iter().fold / for_each) or a plain `for`: look at every body
        CANCEL = Call(r"may::coroutine_impl::Coroutine::cancel", transitive=False)
        bodies = [g for g in [f] + ctx.prog.closures_of(f) if ctx.an.sites(g, CANCEL, "must")]
        ok = len(bodies) == 1
        if ok:
            ctx.guarded(bodies[0].id, CANCEL, call_false(r"may::join::JoinHandle::is_done"), "cqueue/cancel-only-unfinished",
                        "only unfinished selectors are cancelled", pred_label="edge `is_done()` is false")
        ctx.ob("R-ORDER", CD, "cqueue/cancels-selectors", ok, "Drop for Cqueue cancels the unfinished select coroutines before draining" if ok else "Drop for Cqueue no longer cancels its select coroutines", f.where())
        cs = ctx.an.sites(f, Call(r"may::coroutine_impl::Coroutine::cancel", transitive=True), "may")
        ps = ctx.an.sites(f, POLL, "may")
        if not cs or not ps:
            ctx.missing("R-ORDER", CD, "cqueue/cancel-then-drain", "cancel sites=%d poll sites=%d" % (len(cs), len(ps)))
        else:
            after_p = ctx.an.reach(f, [q for p0 in ps for q in ctx.an.after(f, p0)])
            late = [c for c in cs if c in after_p]
            dead = [c for c in cs if not any(p0 in ctx.an.reach(f, ctx.an.after(f, c)) for p0 in ps)]
            okc = not late and not dead
            ctx.ob("R-ORDER", CD, "cqueue/cancel-then-drain", okc, "selectors are cancelled before the drain loop waits for them (no cancel after the first poll)" if okc else
                   "Drop for Cqueue polls before it has cancelled its select coroutines: the drain waits for selectors that nobody told to stop", f.where((late or dead or sorted(cs))[0]))
    # a selector panic surfacing in the drain must not leave the drop before Finished
    ctx.guarded(CD, Call(r"std::panic::resume_unwind", transitive=False), lambda a: a.kind == "variant" and a.name == "Finished", "cqueue/reraise-only-after-finished",
                "Drop for Cqueue re-raises a selector panic only after the drain reported Finished (all select coroutines have ended)", pred_label="edge `poll()` is Err(Finished)")
    ctx.must_call(CD, Call(r"std::panic::catch_unwind", transitive=False), "cqueue/drain-catches-panics",
                  "the drain loop runs poll under catch_unwind: a selector panic re-raised by check_panic cannot unwind out of Drop while other selectors still run")
    ctx.guarded(CD, Call(r"std::panic::resume_unwind", transitive=False), lambda a: a.kind == "truth" and a.truth is False and root_of(a.origin)[0] == "call" and root_of(a.origin)[2] == "std::thread::panicking",
                "cqueue/no-double-panic-in-drop", "the drop re-raises only when it did not start while unwinding", pred_label="edge `unwinding` is false")
    PL = CQ + "::poll"
    shared.cqueue_finished_rules(ctx)
    cnt_zero = lambda a: a.kind == "cmp" and a.op == "Eq" and is_call_result(A("load"), CQ + ".cnt")(a.a) and is_const(0)(a.b)
    ctx.guarded(PL, Agg("may::cqueue::PollError", "Finished", transitive=False), cnt_zero, "cqueue/finished-only-if-cnt-zero", "poll reports Finished only behind `cnt == 0`",
                pred_label="edge `cnt.load() == 0`")
    # cqueue::scope: the Cqueue is a local that is dropped on both exits
    CS = "may::cqueue::scope"
    f = ctx.fn("R-PAIR", CS, "cqueue/scope-drops-cqueue")
    if f is not None:
        okn = oku = False
        for pt, caught in shared.user_body_sites(ctx, f):
            t = f.node(pt)
            rn = ctx.an.reach(f, ctx.an.after(f, pt))
            # every path from the body to the return drops the Cqueue (in normal context)
            def _is_drop(p):
                if not f.is_term(p) or f.is_cleanup(p.bb): return False
                n = f.node(p)
                if n["t"] == "drop": return "may::cqueue::Cqueue" in n["ty"]
                # `drop(cqueue)` written out: the value is moved into mem::drop
                return n["t"] == "call" and (callee_name(n) or "") in ("std::mem::drop", "core::mem::drop") and n["args"] and "may::cqueue::Cqueue" in (type_of_place(f, (n["args"][0].get("m") or n["args"][0].get("c") or {"l": 0, "p": []})) or "")
            drops = set(p for p in f.points() if _is_drop(p))
            okn = any(p in rn for p in drops) and not any(x in ctx.an.reach(f, ctx.an.after(f, pt), blocked=drops) for x in f.ret_points())
            if caught: oku = okn          # (F36) a panic of the body is caught: the drop happens on the normal path, then the unwinding resumes
            elif isinstance(t.get("uw"), int):
                ru = ctx.an.reach(f, [Point(t["uw"], 0)], unwind=True)
                oku = any(f.is_term(p) and f.node(p)["t"] == "drop" and "may::cqueue::Cqueue" in f.node(p)["ty"] for p in ru)
        ctx.ob("R-PAIR", CS, "cqueue/scope-drops-cqueue", okn and oku, "cqueue::scope drops its Cqueue (cancel + drain) on the normal and on the unwind exit" if okn and oku else
               "cqueue::scope does not drop the Cqueue on %s exit" % ("the normal" if not okn else "the unwind"), f.where())
    witness.run_witness(ctx, "c14_scope", ctx.prog.extract_info["target"])
    ctx.import_rules("C09", r"^cancel-state/")
    # JoinState::join acts on the state it was called on: it takes the old value out of *self (swap/replace) and joins that handle
    SWAP = Call(r"(std|core)::mem::(swap|replace|take)", transitive=False)
    ctx.must_call(JS, SWAP, "scope/join-takes-own-state", "JoinState::join takes the current state out of *self (leaving Joined) before it looks at it")
    ctx.order(JS, SWAP, Call(r"may::join::JoinHandle::join", transitive=False), "scope/join-joins-taken-handle", "the handle that is joined is the one taken out of the state")
    # an explicit ScopedJoinHandle::join waits for the child before it takes the result
    SJ = SC + "::ScopedJoinHandle::join"
    WAIT = Call(re.escape(JS) + "|may::join::JoinHandle::join")
    TAKE = Call(AO + "take", on=SC + "::ScopedJoinHandle.packet", transitive=False)
    ctx.order(SJ, WAIT, TAKE, "scope/explicit-join-waits-then-takes", "ScopedJoinHandle::join takes the child's result only after the child was joined")
    ctx.must_call(SJ, WAIT, "scope/explicit-join-waits", "ScopedJoinHandle::join always joins the child")
    # the scoped child stores its result for the joiner
    f = ctx.fn("R-PAIR", SI, "scope/child-stores-result")
    if f is not None:
        cls = [g for g in ctx.prog.closures_of(f) if ctx.an.may(g, Call(AO + "store", transitive=False))]
        ok = len(cls) >= 1 and all(ctx.an.must(g, Call(AO + "store", transitive=False)) for g in cls)
        ctx.ob("R-PAIR", SI, "scope/child-stores-result", ok, "the closure run by a scoped coroutine always stores f()'s value in the shared packet" if ok else
               "the scoped child's closure does not (always) store its result: ScopedJoinHandle::join finds no packet", f.where())
    shared.drops_do_not_block_unmasked(ctx)
    shared.no_blocking_landing_pad(ctx)
