"""CFG normal form for boolean temporaries (jump threading).

`if !matches!(x, Err(Empty)) {..}`, `let wake = has_data || closed; if wake {..}`, `let ok = if c { true } else { false }` and the
`return true` / `return false` of an inlined helper all produce the same MIR shape: a local is assigned a *constant* in some
predecessor blocks and a later block branches on it. A path-insensitive reading of that branch knows nothing about the conditions
under which the constant was assigned. Jump threading removes the detour: a predecessor that ends with `b = const c; goto B`,
where B only (copies / negates b and) switches on it, jumps straight to the switch target selected by c (B's statements are
copied, they are assignments only). The edge conditions that led to the constant assignment then lead directly to the branch they
decide - exactly the CFG of the hand-written `match`/`if`. Blocks keep their indices; new blocks are appended.

Empty `goto` blocks are skipped first so that join blocks do not hide the pattern. Nothing else is changed; on code without such
temporaries this is the identity."""
import copy

def _local_of(op):
    pl = op.get("c") or op.get("m")
    if pl is not None and not pl["p"]: return pl["l"]
    return None

def _const_bool(op):
    if "c" in op or "m" in op or "fn" in op or op.get("ty") != "bool": return None
    k = op.get("k")
    if k == "true": return 1
    if k == "false": return 0
    return None

def _redirect(t, old, new):
    if t.get("ok") == old: t["ok"] = new
    if t.get("else") == old: t["else"] = new
    if t["t"] == "sw": t["tg"] = [[v, (new if b == old else b)] for v, b in t["tg"]]
    if t["t"] == "asm": t["tg"] = [(new if b == old else b) for b in t.get("tg", [])]

def _succs(t):
    out = []
    if isinstance(t.get("ok"), int): out.append(t["ok"])
    if isinstance(t.get("else"), int): out.append(t["else"])
    if t["t"] == "sw": out += [b for _, b in t["tg"]]
    if t["t"] == "asm": out += list(t.get("tg", []))
    return out

def _fold(block, known):
    """evaluate the switch operand of `block` given constant locals `known`; -> int or None"""
    env = dict(known)
    for st in block["st"]:
        if st.get("s") != "=": continue
        l = st["l"]
        if l["p"]:
            continue
        rv = st["rv"]; val = None
        if rv["r"] == "use":
            src = _local_of(rv["o"])
            val = env.get(src) if src is not None else _const_bool(rv["o"])
        elif rv["r"] == "un" and rv.get("op") == "Not":
            src = _local_of(rv["o"])
            v = env.get(src) if src is not None else _const_bool(rv["o"])
            val = None if not isinstance(v, int) else 1 - v
        elif rv["r"] == "discr" and not rv["pl"]["p"]:
            v = env.get(rv["pl"]["l"])
            if isinstance(v, tuple) and rv.get("vars"):
                for d, name in rv["vars"]:
                    if name == v[1]: val = int(d)
        if val is None: env.pop(l["l"], None)
        else: env[l["l"]] = val
    t = block["tm"]
    src = _local_of(t["o"])
    v = env.get(src) if src is not None else None
    return v if isinstance(v, int) else None

def _simple(b, allow_discr=True):
    """only storage markers and plain copies / negations / discriminant reads: safe to duplicate"""
    if b.get("cl") or b.get("ghost") or len(b["st"]) > 8: return False
    for st in b["st"]:
        if st.get("s") in ("dead", "live", "nop"): continue
        if st.get("s") != "=": return False
        if st["rv"]["r"] not in ("use", "un", "discr"): return False
        if st["rv"]["r"] == "use" and "c" not in st["rv"]["o"] and "m" not in st["rv"]["o"] and _const_bool(st["rv"]["o"]) is None: return False
    return True

def thread_jumps(mir, bool_locals, enum_locals=frozenset(), max_rounds=4):
    """mutates mir (a deep copy owned by the caller); returns number of threaded edges"""
    blocks = mir["blocks"]
    n = 0
    for _ in range(max_rounds):
        changed = False
        # 1. skip empty goto blocks
        fwd = {}
        for i, b in enumerate(blocks):
            if not b["st"] and b["tm"]["t"] == "goto" and not b.get("cl") and not b.get("ghost") and b["tm"]["ok"] != i:
                fwd[i] = b["tm"]["ok"]
        def final(i, seen=()):
            while i in fwd and i not in seen:
                seen = seen + (i,); i = fwd[i]
            return i
        for i, b in enumerate(blocks):
            if b.get("ghost"): continue
            for s in set(_succs(b["tm"])):
                f = final(s)
                if f != s:
                    _redirect(b["tm"], s, f); changed = True
        # 2. thread constant boolean / known-variant assignments into the switch that tests them. Between the assignment and the
        #    switch there may be up to two blocks that only copy (the `dest = _0` of an inlined helper's return).
        preds = {}
        for i, b in enumerate(blocks):
            if b.get("cl") or b.get("ghost"): continue
            if b["tm"]["t"] == "goto": preds.setdefault(b["tm"]["ok"], []).append(i)
        for bi, B in enumerate(list(blocks)):
            if B["tm"]["t"] != "sw" or not _simple(B): continue
            chains = [[bi]]
            for m1 in preds.get(bi, []):
                if m1 != bi and _simple(blocks[m1]) and not blocks[m1]["tm"].get("threaded"):
                    chains.append([m1, bi])
                    for m2 in preds.get(m1, []):
                        if m2 not in (m1, bi) and _simple(blocks[m2]) and not blocks[m2]["tm"].get("threaded"): chains.append([m2, m1, bi])
            for chain in chains:
                head = chain[0]
                sts = [st for c in chain for st in blocks[c]["st"]]
                if len(sts) > 12: continue
                pseudo = {"st": sts, "tm": B["tm"]}
                for xi in list(preds.get(head, [])):
                    X = blocks[xi]
                    if xi in chain or X["tm"]["t"] != "goto" or X["tm"]["ok"] != head: continue
                    known = {}
                    for st in X["st"]:
                        if st.get("s") == "=" and not st["l"]["p"]:
                            l = st["l"]["l"]; rv = st["rv"]
                            c = _const_bool(rv["o"]) if rv["r"] == "use" else None
                            if c is not None and l in bool_locals: known[l] = c
                            elif rv["r"] == "agg" and rv.get("ak") == "adt" and rv.get("var") is not None and l in enum_locals: known[l] = ("var", rv["var"])
                            else: known.pop(l, None)
                    if not known: continue
                    v = _fold(pseudo, known)
                    if v is None: continue
                    t = B["tm"]
                    target = None
                    for val, tb in t["tg"]:
                        if int(val) == v: target = tb
                    if target is None: target = t["else"]
                    nb = {"cl": False, "st": copy.deepcopy(sts), "tm": {"t": "goto", "ok": target, "ln": t.get("ln"), "x": False, "threaded": bi}}
                    for key in ("file", "_stk"):
                        if key in blocks[head]: nb[key] = blocks[head][key]
                    blocks.append(nb)
                    X["tm"]["ok"] = len(blocks) - 1
                    preds[head].remove(xi)
                    n += 1; changed = True
        if not changed: break
    return n

def normalise_fn(f, Fn):
    """-> new Fn (or f itself when nothing changes)"""
    bl = set(i for i, t in enumerate(f.locals) if t == "bool")
    # locals that get a variant of an enum in more than one place (a match that builds an Option / Result / private enum)
    cnt = {}
    hit = False
    for b in f.blocks:
        if b.get("cl") or b.get("ghost"): continue
        for st in b["st"]:
            if st.get("s") != "=" or st["l"]["p"]: continue
            rv = st["rv"]
            if st["l"]["l"] in bl and rv["r"] == "use" and _const_bool(rv["o"]) is not None: hit = True
            if rv["r"] == "agg" and rv.get("ak") == "adt" and rv.get("var") is not None and b["tm"]["t"] == "goto":
                cnt.setdefault(st["l"]["l"], set()).add(rv["var"])
    el = set(l for l, vs in cnt.items() if len(vs) > 1)
    if not hit and not el: return f, 0
    mir = copy.deepcopy(f.raw["mir"])
    n = thread_jumps(mir, bl, el)
    if not n: return f, 0
    raw = dict(f.raw); raw["mir"] = mir
    nf = Fn(raw, f.prog); nf.id = f.id
    nf.inlined = getattr(f, "inlined", ())
    return nf, n

def normalise(prog):
    import engine
    out = {}; total = 0
    for k, f in prog.fns.items():
        if not k.lstrip("<&'a ").startswith("may"):
            out[k] = f; continue
        nf, n = normalise_fn(f, engine.Fn)
        out[k] = nf; total += n
    np = copy.copy(prog)
    np.fns = out
    for f in out.values(): f.prog = np
    np._callers = None; np._closure_parent = None
    np.threaded_edges = total
    return np
