"""CFG normal form for boolean temporaries (jump threading).

`if !matches!(x, Err(Empty)) {..}`, `let wake = has_data || closed; if wake {..}`, `let ok = if c { true } else { false }` and the
`return true` / `return false` of an inlined helper all produce the same MIR shape: a local is assigned a *constant* in some
predecessor blocks and a later block branches on it. A path-insensitive reading of that branch knows nothing about the conditions
under which the constant was assigned. Jump threading removes the detour: a predecessor that ends with `b = const c; goto B`,
where B only (copies / negates b and) switches on it, jumps straight to the switch target selected by c (B's statements are
copied, they are assignments only). The edge conditions that led to the constant assignment then lead directly to the branch they
decide - exactly the CFG of the hand-written `match`/`if`. Blocks keep their indices; new blocks are appended.

Empty `goto` blocks are skipped first so that join blocks do not hide the pattern. Nothing else is changed; on code without such
temporaries this is the identity."""
import copy

def _local_of(op):
    pl = op.get("c") or op.get("m")
    if pl is not None and not pl["p"]: return pl["l"]
    return None

def _const_bool(op):
    if "c" in op or "m" in op or "fn" in op or op.get("ty") != "bool": return None
    k = op.get("k")
    if k == "true": return 1
    if k == "false": return 0
    return None

def _redirect(t, old, new):
    if t.get("ok") == old: t["ok"] = new
    if t.get("else") == old: t["else"] = new
    if t["t"] == "sw": t["tg"] = [[v, (new if b == old else b)] for v, b in t["tg"]]
    if t["t"] == "asm": t["tg"] = [(new if b == old else b) for b in t.get("tg", [])]

def _succs(t):
    out = []
    if isinstance(t.get("ok"), int): out.append(t["ok"])
    if isinstance(t.get("else"), int): out.append(t["else"])
    if t["t"] == "sw": out += [b for _, b in t["tg"]]
    if t["t"] == "asm": out += list(t.get("tg", []))
    return out

def _fold(block, known):
    """evaluate the switch operand of `block` given constant locals `known`; -> int or None"""
    env = dict(known)
    for st in block["st"]:
        if st.get("s") != "=": continue
        l = st["l"]
        if l["p"]:
            continue
        rv = st["rv"]; val = None
        if rv["r"] == "use":
            src = _local_of(rv["o"])
            val = env.get(src) if src is not None else _const_bool(rv["o"])
        elif rv["r"] == "un" and rv.get("op") == "Not":
            src = _local_of(rv["o"])
            v = env.get(src) if src is not None else _const_bool(rv["o"])
            val = None if v is None else 1 - v
        if val is None: env.pop(l["l"], None)
        else: env[l["l"]] = val
    t = block["tm"]
    src = _local_of(t["o"])
    return env.get(src) if src is not None else None

def thread_jumps(mir, bool_locals, max_rounds=4):
    """mutates mir (a deep copy owned by the caller); returns number of threaded edges"""
    blocks = mir["blocks"]
    n = 0
    for _ in range(max_rounds):
        changed = False
        # 1. skip empty goto blocks
        fwd = {}
        for i, b in enumerate(blocks):
            if not b["st"] and b["tm"]["t"] == "goto" and not b.get("cl") and not b.get("ghost") and b["tm"]["ok"] != i:
                fwd[i] = b["tm"]["ok"]
        def final(i, seen=()):
            while i in fwd and i not in seen:
                seen = seen + (i,); i = fwd[i]
            return i
        for i, b in enumerate(blocks):
            if b.get("ghost"): continue
            for s in set(_succs(b["tm"])):
                f = final(s)
                if f != s:
                    _redirect(b["tm"], s, f); changed = True
        # 2. thread constant boolean assignments into the switch that tests them
        for bi, B in enumerate(list(blocks)):
            if B.get("cl") or B.get("ghost") or B["tm"]["t"] != "sw" or B["tm"].get("dty") != "bool": continue
            if len(B["st"]) > 6 or any(st.get("s") not in ("=", "dead") or (st.get("s") == "=" and st["rv"]["r"] not in ("use", "un")) for st in B["st"]): continue
            for xi, X in enumerate(list(blocks)):
                if xi == bi or X.get("cl") or X.get("ghost") or X["tm"]["t"] != "goto" or X["tm"]["ok"] != bi: continue
                known = {}
                for st in X["st"]:
                    if st.get("s") == "=" and not st["l"]["p"]:
                        c = _const_bool(st["rv"]["o"]) if st["rv"]["r"] == "use" else None
                        if c is not None and st["l"]["l"] in bool_locals: known[st["l"]["l"]] = c
                        else: known.pop(st["l"]["l"], None)
                if not known: continue
                v = _fold(B, known)
                if v is None: continue
                t = B["tm"]
                target = None
                for val, tb in t["tg"]:
                    if int(val) == v: target = tb
                if target is None: target = t["else"]
                nb = {"cl": False, "st": copy.deepcopy(B["st"]), "tm": {"t": "goto", "ok": target, "ln": t.get("ln"), "x": False, "threaded": bi}}
                if "file" in B: nb["file"] = B["file"]
                if "_stk" in B: nb["_stk"] = B["_stk"]
                blocks.append(nb)
                X["tm"]["ok"] = len(blocks) - 1
                n += 1; changed = True
        if not changed: break
    return n

def normalise_fn(f, Fn):
    """-> new Fn (or f itself when nothing changes)"""
    bl = set(i for i, t in enumerate(f.locals) if t == "bool")
    if not bl: return f, 0
    # cheap pre-filter: some bool local is assigned a constant
    hit = False
    for b in f.blocks:
        if b.get("cl") or b.get("ghost"): continue
        for st in b["st"]:
            if st.get("s") == "=" and not st["l"]["p"] and st["l"]["l"] in bl and st["rv"]["r"] == "use" and _const_bool(st["rv"]["o"]) is not None:
                hit = True; break
        if hit: break
    if not hit: return f, 0
    mir = copy.deepcopy(f.raw["mir"])
    n = thread_jumps(mir, bl)
    if not n: return f, 0
    raw = dict(f.raw); raw["mir"] = mir
    nf = Fn(raw, f.prog); nf.id = f.id
    nf.inlined = getattr(f, "inlined", ())
    return nf, n

def normalise(prog):
    import engine
    out = {}; total = 0
    for k, f in prog.fns.items():
        if not k.lstrip("<&'a ").startswith("may"):
            out[k] = f; continue
        nf, n = normalise_fn(f, engine.Fn)
        out[k] = nf; total += n
    np = copy.copy(prog)
    np.fns = out
    for f in out.values(): f.prog = np
    np._callers = None; np._closure_parent = None
    np.threaded_edges = total
    return np
