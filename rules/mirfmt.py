"""Pretty printer for mayfacts JSON (debugging / reports)."""
def fmt_place(p):
    s = "_%d" % p["l"]
    for e in p["p"]:
        if e == "*":
            s = "(*%s)" % s
        elif isinstance(e, dict):
            if "f" in e:
                s = "%s.%s" % (s, e["f"])
            elif "dc" in e:
                s = "(%s as %s)" % (s, e["dc"])
            elif "ix" in e:
                s = "%s[_%d]" % (s, e["ix"])
            elif "cix" in e:
                s = "%s[%s]" % (s, e["cix"])
        else:
            s = "%s.<%s>" % (s, e)
    return s

def fmt_op(o):
    if "c" in o: return "copy " + fmt_place(o["c"])
    if "m" in o: return "move " + fmt_place(o["m"])
    if "fn" in o: return "fn " + (o["fn"].get("r") or o["fn"]["p"])
    return "const " + o.get("k", "?")

def fmt_rv(rv):
    r = rv["r"]
    if r == "use": return fmt_op(rv["o"])
    if r == "ref": return ("&mut " if rv["mut"] else "&") + fmt_place(rv["pl"])
    if r == "raw": return ("&raw mut " if rv["mut"] else "&raw const ") + fmt_place(rv["pl"])
    if r == "cast": return "%s as %s (%s)" % (fmt_op(rv["o"]), rv["ty"], rv["ck"])
    if r == "bin": return "%s(%s, %s)" % (rv["op"], fmt_op(rv["a"]), fmt_op(rv["b"]))
    if r == "un": return "%s(%s)" % (rv["op"], fmt_op(rv["o"]))
    if r == "discr": return "discriminant(%s)" % fmt_place(rv["pl"])
    if r == "cfd": return "deref_copy " + fmt_place(rv["pl"])
    if r == "agg":
        ops = ", ".join(fmt_op(o) for o in rv["ops"])
        if rv["ak"] == "adt": return "%s::%s{%s}" % (rv["adt"], rv["var"], ops)
        if rv["ak"] == "closure": return "closure %s{%s}" % (rv["did"], ops)
        return "%s(%s)" % (rv["ak"], ops)
    return r + " " + str({k: v for k, v in rv.items() if k != "r"})

def fmt_fn(f):
    out = []
    m = f["mir"]
    out.append("fn %s  [%s:%s] argc=%d" % (f["id"], f["file"], f["line"], m["argc"]))
    for i, t in enumerate(m["locals"]):
        out.append("    let _%d: %s" % (i, t))
    for d in m["dbg"]:
        out.append("    debug %s => %s" % (d["n"], fmt_place(d["pl"])))
    for bi, b in enumerate(m["blocks"]):
        out.append("  bb%d%s:" % (bi, " (cleanup)" if b["cl"] else ""))
        for s in b["st"]:
            if s["s"] == "=":
                out.append("    %s = %s    // L%s" % (fmt_place(s["l"]), fmt_rv(s["rv"]), s["ln"]))
            elif s["s"] == "setdiscr":
                out.append("    discriminant(%s) = %s" % (fmt_place(s["l"]), s["var"]))
            elif s["s"] == "dead":
                pass
            else:
                out.append("    %s" % s)
        t = b["tm"]
        k = t["t"]
        if k == "call":
            out.append("    %s = %s(%s) -> [ok: %s, uw: %s]   // L%s" % (
                fmt_place(t["d"]), fmt_op(t["f"]), ", ".join(fmt_op(a) for a in t["args"]), t["ok"], t["uw"], t["ln"]))
        elif k == "sw":
            out.append("    switch(%s) -> %s else %s" % (fmt_op(t["o"]), t["tg"], t["else"]))
        elif k == "drop":
            out.append("    drop(%s : %s) -> [ok: %s, uw: %s]" % (fmt_place(t["pl"]), t["ty"], t["ok"], t["uw"]))
        elif k == "assert":
            out.append("    assert(%s == %s) %s -> [ok: %s]" % (fmt_op(t["o"]), t["exp"], t["msg"], t["ok"]))
        elif k == "goto":
            out.append("    goto %s" % t["ok"])
        else:
            out.append("    %s" % k)
    return "\n".join(out)

if __name__ == "__main__":
    import json, sys
    d = json.load(open(sys.argv[1]))
    pat = sys.argv[2]
    for f in d["fns"]:
        if pat in f["id"]:
            print(fmt_fn(f)); print()
