"""Rule families (R-ORDER, R-EXIT, R-PAIR, R-WHO, R-MO, ...) as helpers that record obligations."""
import re
from engine import *

class Ob:
    def __init__(self, prop, rule, item, inst, status, msg, site=None, nontrivial=True, detail=None, cfg=None):
        self.prop = prop; self.rule = rule; self.item = item; self.inst = inst
        self.status = status            # discharged | violated | anchor-missing
        self.msg = msg; self.site = site; self.nontrivial = nontrivial; self.detail = detail
        self.cfg = cfg
    @property
    def key(self):
        return re.sub(r"\{closure#\d+\}", "{closure}", "%s|%s|%s|%s" % (self.prop, self.rule, self.item, self.inst))
    def to_json(self):
        d = dict(key=self.key, rule=self.rule, item=self.item, instance=self.inst, status=self.status,
                 what=self.msg, site=self.site, config=self.cfg)
        if self.detail: d["detail"] = self.detail
        return d

class Ctx:
    def __init__(self, prop, prog, cfg="default", tier="quick"):
        self.prop = prop; self.prog = prog; self.cfg = cfg; self.tier = tier
        self.an = Analysis(prog)
        self.obs = []
        self.fns_touched = set()
        self.rule_counts = {}

    # -- rules of another property that this property depends on
    def import_rules(self, other_pid, inst_rx):
        """evaluate the rule instances of property `other_pid` whose instance name matches inst_rx as obligations of THIS property
        (a property that is built on a mechanism another property owns: C07's disconnect permit travels through the Semphore
        hand-off that C10 specifies, C08's timers sit in the list that C19 specifies, ...)"""
        import importlib
        if getattr(self, "_importing", False): return
        mod = importlib.import_module("props." + other_pid)
        sub = Ctx(self.prop, self.prog, self.cfg, self.tier)
        sub.an = self.an; sub._importing = True
        mod.check(sub)
        rx = re.compile(inst_rx)
        have = set((o.rule, o.item, o.inst) for o in self.obs)
        for o in sub.obs:
            if rx.search(o.inst) and (o.rule, o.item, o.inst) not in have:
                self.obs.append(o)
                self.rule_counts[o.rule] = self.rule_counts.get(o.rule, 0) + 1
        self.fns_touched |= sub.fns_touched

    # -- recording
    def ob(self, rule, item, inst, ok, msg, site=None, nontrivial=True, detail=None, missing=False):
        status = "anchor-missing" if missing else ("discharged" if ok else "violated")
        o = Ob(self.prop, rule, item, inst, status, msg, site, nontrivial, detail, self.cfg)
        self.obs.append(o)
        self.rule_counts[rule] = self.rule_counts.get(rule, 0) + 1
        return o

    def missing(self, rule, item, inst, msg):
        return self.ob(rule, item, inst, False, "ANCHOR-MISSING: " + msg, missing=True)

    def fn(self, rule, fid, inst):
        f = self.prog.fn(fid)
        if f is None:
            self.missing(rule, fid, inst, "function %s not found in the analysed program" % fid)
            return None
        self.fns_touched.add(f.id)
        return f

    # -- helpers -----------------------------------------------------------------------------

    def sites(self, f, ev, mode):
        return self.an.sites(f, ev, mode)

    # R-ORDER: every B site is reachable from entry only through an A site
    def order(self, fid, A, B, inst, why, rule="R-ORDER", need_b=True, between_forbidden=None, _depth=0):
        f = self.fn(rule, fid, inst)
        if f is None: return False
        an = self.an
        a_sites = an.sites(f, A, "must")
        b_sites = an.sites(f, B, "may")
        if not a_sites:
            self.missing(rule, fid, inst, "no site performing A = %s in %s" % (A.label, fid)); return False
        if not b_sites:
            if need_b:
                self.missing(rule, fid, inst, "no site performing B = %s in %s" % (B.label, fid)); return False
            self.ob(rule, fid, inst, True, "%s: no %s at all (vacuous)" % (why, B.label), f.where(), nontrivial=False)
            return True
        ok = True
        both = a_sites & b_sites
        # a site that is both: the order must hold inside the callee
        for pt in sorted(both):
            if direct_match(f, pt, A) or direct_match(f, pt, B):
                continue
            for g, cert in an.local_targets(f, pt):
                if an.may(g, B) and _depth < 3:
                    if an.may(g, A):
                        ok &= self.order(g.id, A, B, inst + "/in:" + g.id.rsplit("::", 1)[-1], why, rule, need_b=False, _depth=_depth + 1)
        reach = an.reach(f, [Point(0, 0)], blocked=a_sites)
        bad = [b for b in b_sites - both if b in reach]
        if bad:
            p = an.path(f, [Point(0, 0)], bad, blocked=a_sites)
            self.ob(rule, fid, inst, False,
                    "%s: `%s` can happen before `%s` in %s" % (why, B.label, A.label, fid),
                    f.where(bad[0]), detail=an.fmt_path(f, p))
            return False
        if ok:
            self.ob(rule, fid, inst, True,
                    "%s: `%s` (%d site(s)) precedes every `%s` (%d site(s))" % (why, A.label, len(a_sites), B.label, len(b_sites)),
                    f.where(sorted(a_sites)[0]))
        return ok

    # edges of f whose atoms satisfy pred
    def edges(self, f, pred):
        out = []
        for bi in range(f.nblocks()):
            if f.is_cleanup(bi): continue
            if f.term(bi)["t"] != "sw": continue
            for tb, lab in f.term_succs(bi):
                atoms = edge_atoms(self.prog, f, bi, lab)
                if any(pred(a) for a in atoms):
                    out.append((bi, tb, lab))
        return out

    def edge_blocker(self, f, pred):
        good = set((bi, tb) for bi, tb, lab in self.edges(f, pred))
        def blk(p, q, lab):
            return f.is_term(p) and (p.bb, q.bb) in good
        return blk, good

    # R-EXIT: target sites are reachable only through an edge satisfying pred; after an
    # `invalidate` site the edge must be passed again
    def guarded(self, fid, target, pred, inst, why, rule="R-EXIT", invalidate=None, target_mode="may",
                pred_label="guard edge", min_edges=1):
        f = self.fn(rule, fid, inst)
        if f is None: return False
        an = self.an
        if isinstance(target, Ev):
            t_sites = an.sites(f, target, target_mode)
            tlabel = target.label
        else:
            t_sites = set(target(f)); tlabel = "target"
        if not t_sites:
            self.missing(rule, fid, inst, "no target site `%s` in %s" % (tlabel, fid)); return False
        blk, good = self.edge_blocker(f, pred)
        if len(good) < min_edges:
            # no guard edge at all: the target is trivially unguarded
            p = an.path(f, [Point(0, 0)], t_sites)
            self.ob(rule, fid, inst, False, "%s: no %s found in %s, `%s` is unguarded" % (why, pred_label, fid, tlabel),
                    f.where(sorted(t_sites)[0]), detail=an.fmt_path(f, p))
            return False
        reach = an.reach(f, [Point(0, 0)], blocked_edges=blk)
        bad = [t for t in t_sites if t in reach]
        if bad:
            p = an.path(f, [Point(0, 0)], bad, blocked_edges=blk)
            self.ob(rule, fid, inst, False, "%s: `%s` reachable without passing %s" % (why, tlabel, pred_label),
                    f.where(bad[0]), detail=an.fmt_path(f, p))
            return False
        if invalidate is not None:
            inv = an.sites(f, invalidate, "may")
            for s in sorted(inv):
                r2 = an.reach(f, an.after(f, s), blocked_edges=blk)
                bad = [t for t in t_sites if t in r2]
                if bad:
                    p = an.path(f, an.after(f, s), bad, blocked_edges=blk)
                    self.ob(rule, fid, inst, False,
                            "%s: `%s` reachable after `%s` without re-passing %s" % (why, tlabel, invalidate.label, pred_label),
                            f.where(bad[0]), detail=an.fmt_path(f, [s] + (p or [])))
                    return False
        self.ob(rule, fid, inst, True, "%s: every path to `%s` (%d site(s)) passes %s (%d edge(s))" %
                (why, tlabel, len(t_sites), pred_label, len(good)), f.where(sorted(t_sites)[0]))
        return True

    # R-PAIR: on every normal path from an A site (or from an edge satisfying `edge`) to a return,
    # a B site occurs (must mode)
    def must_follow(self, fid, A, B, inst, why, rule="R-PAIR", edge=None, edge_label="edge", b_mode="must",
                    stop_at_unwind=True, exits="ret"):
        f = self.fn(rule, fid, inst)
        if f is None: return False
        an = self.an
        if isinstance(B, (list, tuple)):
            b_sites = set()
            for b in B: b_sites |= an.sites(f, b, b_mode)
            class _L: pass
            BL = _L(); BL.label = " | ".join(b.label for b in B); B = BL
        else:
            b_sites = an.sites(f, B, b_mode)
        if not b_sites:
            self.missing(rule, fid, inst, "no site performing `%s` in %s" % (B.label, fid)); return False
        starts = []
        if A is not None:
            a_sites = an.sites(f, A, "may")
            if not a_sites:
                self.missing(rule, fid, inst, "no site performing `%s` in %s" % (A.label, fid)); return False
            for s in a_sites:
                if s in b_sites: continue
                starts.extend(an.after(f, s))
            alabel = A.label
        else:
            es = self.edges(f, edge)
            if not es:
                self.missing(rule, fid, inst, "no %s in %s" % (edge_label, fid)); return False
            starts = [Point(tb, 0) for bi, tb, lab in es]
            alabel = edge_label
        reach = an.reach(f, starts, blocked=b_sites)
        if exits == "ret":
            ex = f.ret_points()
        else:
            ex = list(exits(f))
        bad = [r for r in ex if r in reach]
        if bad:
            p = an.path(f, starts, bad, blocked=b_sites)
            self.ob(rule, fid, inst, False, "%s: a path from `%s` reaches the exit without `%s`" % (why, alabel, B.label),
                    f.where(p[0] if p else None), detail=an.fmt_path(f, p))
            return False
        self.ob(rule, fid, inst, True, "%s: every path from `%s` to the exit passes `%s`" % (why, alabel, B.label),
                f.where(sorted(b_sites)[0]))
        return True

    # must (whole function)
    def must_call(self, fid, B, inst, why, rule="R-PAIR"):
        f = self.fn(rule, fid, inst)
        if f is None: return False
        if not self.an.sites(f, B, "must"):
            self.missing(rule, fid, inst, "no site performing `%s` in %s" % (B.label, fid)); return False
        ok = self.an.must(f, B)
        if not ok:
            sites = self.an.sites(f, B, "must")
            p = self.an.path(f, [Point(0, 0)], f.ret_points(), blocked=sites)
            self.ob(rule, fid, inst, False, "%s: %s can return without `%s`" % (why, fid, B.label), f.where(),
                    detail=self.an.fmt_path(f, p))
            return False
        self.ob(rule, fid, inst, True, "%s: every normal path of %s performs `%s`" % (why, fid, B.label), f.where())
        return True

    # never: no site (may mode) of ev in fn
    def never(self, fid, ev, inst, why, rule="R-NEVER"):
        f = self.fn(rule, fid, inst)
        if f is None: return False
        s = self.an.sites(f, ev, "may")
        if s:
            self.ob(rule, fid, inst, False, "%s: `%s` occurs in %s" % (why, ev.label, fid), f.where(sorted(s)[0]))
            return False
        self.ob(rule, fid, inst, True, "%s: no `%s` in %s" % (why, ev.label, fid), f.where(), nontrivial=False)
        return True

    # R-WHO
    def callers_of(self, callee_rx, direct_only=True):
        rx = re.compile(callee_rx)
        out = {}
        for cid, sites in self.prog.callers().items():
            if rx.fullmatch(cid):
                for (g, pt) in sites:
                    out.setdefault(g.id, []).append((g, pt, cid))
        return out

    def expand_allowed(self, allowed):
        """a helper named in a who-may-call table that no longer exists (inlined by hand into its callers) passes its entry on to the
        functions that called it in the reference tree"""
        out = set(allowed)
        rc = getattr(self.prog, "ref_callers", None) or {}
        work = [h for h in allowed if h not in self.prog.fns]
        seen = set()
        while work:
            h = work.pop()
            if h in seen: continue
            seen.add(h)
            for c in rc.get(h, ()):
                out.add(c)
                if c not in self.prog.fns: work.append(c)
        return out

    def who_may_call(self, callee_rx, allowed, inst, why, rule="R-WHO", min_callers=1):
        allowed = self.expand_allowed(allowed)
        cs = self.callers_of(callee_rx)
        if len(cs) < min_callers:
            self.missing(rule, callee_rx, inst, "expected at least %d caller(s) of %s, found %d" % (min_callers, callee_rx, len(cs)))
            return False
        ok = True
        # closures of a new helper that the normal form inlined into its callers act on behalf of those callers
        inl = {}
        for k, f in self.prog.fns.items():
            for h in getattr(f, "inlined", ()) or ():
                inl.setdefault(h, set()).add(k.split("::{closure#")[0])
        for gid in sorted(cs):
            base = gid.split("::{closure#")[0]
            if gid in allowed or base in allowed:
                continue
            if base not in self.prog.fns and base in inl and all(b in allowed for b in inl[base]):
                continue
            g, pt, cid = cs[gid][0]
            self.ob(rule, callee_rx, inst + "/" + gid, False, "%s: %s is called from %s, which is outside the allowed set" % (why, cid, gid), g.where(pt))
            ok = False
        if ok:
            self.ob(rule, callee_rx, inst, True, "%s: callers %s ⊆ allowed set" % (why, sorted(cs)), None)
        return ok

    # R-MO
    def mo_sites(self, field, ops):
        """all atomic op sites on `field` ("Adt.field") with method in ops -> [(f, pt, t, method)]"""
        out = []
        for f in self.prog.fns.values():
            for pt in f.points(cleanup=True):
                if not f.is_term(pt): continue
                t = f.node(pt)
                if t["t"] != "call": continue
                nm = callee_name(t) or ""
                if not (nm.startswith("std::sync::atomic::Atomic") or nm.startswith("core::sync::atomic::Atomic")):
                    continue
                m = nm.rsplit("::", 1)[-1]
                if m not in ops: continue
                if receiver_leaf(f, t) != field: continue
                out.append((f, pt, t, m))
        return out

    def mo_floor(self, field, ops, floor, inst, why, rule="R-MO", min_sites=1, only_in=None, exempt=()):
        """floor: 'REL' | 'ACQ' | 'ACQREL'. ops: iterable of method names. For compare_exchange*
        the success ordering is the first ordering argument."""
        sites = self.mo_sites(field, ops)
        if only_in is not None:
            sites = [s for s in sites if re.fullmatch(only_in, s[0].id)]
        sites = [s for s in sites if s[0].id not in exempt]
        if len(sites) < min_sites:
            self.missing(rule, field, inst, "expected ≥%d atomic %s site(s) on %s, found %d" % (min_sites, "/".join(ops), field, len(sites)))
            return False
        ok = True
        for f, pt, t, m in sites:
            self.fns_touched.add(f.id)
            ords = [ordering_of(f, a) for a in t["args"]]
            ords = [o for o in ords if o]
            tys = [a for a in t["args"]]
            # find ordering args by type
            oargs = []
            for a in t["args"]:
                o = ordering_of(f, a)
                pl = a.get("m") or a.get("c")
                if pl is not None and f.locals[pl["l"]] == "std::sync::atomic::Ordering" or (a.get("ty") == "std::sync::atomic::Ordering"):
                    oargs.append(o)
            if not oargs:
                self.ob(rule, field, "%s/%s@%s" % (inst, m, f.id), False, "cannot resolve the ordering argument", f.where(pt)); ok = False; continue
            o = oargs[0]
            if o is None:
                self.ob(rule, field, "%s/%s@%s" % (inst, m, f.id), False, "%s: ordering of %s on %s in %s is not a constant" % (why, m, field, f.id), f.where(pt)); ok = False; continue
            good = satisfies(o, floor) or self._fence_covers(f, pt, floor)
            self.ob(rule, field, "%s/%s@%s" % (inst, m, f.id), good,
                    "%s: %s(%s) on %s in %s %s floor %s" % (why, m, o, field, f.id, "meets" if good else "is BELOW", floor), f.where(pt))
            ok &= good
        return ok

    def _fence_covers(self, f, pt, floor):
        """REL: a fence(Release|AcqRel|SeqCst) earlier in the same block sequence dominating pt;
           ACQ: a fence(Acquire|AcqRel|SeqCst) on every path after pt before return"""
        fence = Call(r"std::sync::atomic::fence|core::sync::atomic::fence", transitive=False,
                     where=lambda g, p, t: satisfies(ordering_of(g, t["args"][0]) or "Relaxed", floor))
        fs = self.an.sites(f, fence, "must")
        if not fs: return False
        if floor == "REL":
            reach = self.an.reach(f, [Point(0, 0)], blocked=fs)
            return pt not in reach
        if floor == "ACQ":
            reach = self.an.reach(f, self.an.after(f, pt), blocked=fs)
            return not any(r in reach for r in f.ret_points())
        if floor == "SEQ":
            # a store-buffering (Dekker) pair: a fence(SeqCst) separates the access from what follows / precedes it in the pattern -
            # after a store (on every path to the return), before a load (on every path from the entry); an RMW needs either
            t = f.node(pt); m = (callee_name(t) or "").rsplit("::", 1)[-1]
            after = not any(r in self.an.reach(f, self.an.after(f, pt), blocked=fs) for r in f.ret_points())
            before = pt not in self.an.reach(f, [Point(0, 0)], blocked=fs)
            if m == "store": return after
            if m == "load": return before
            return after or before
        return False

def satisfies(o, floor):
    if floor == "REL": return o in ("Release", "AcqRel", "SeqCst")
    if floor == "ACQ": return o in ("Acquire", "AcqRel", "SeqCst")
    if floor == "ACQREL": return o in ("AcqRel", "SeqCst")
    if floor == "SEQ": return o == "SeqCst"
    if floor == "ANY": return True
    raise ValueError(floor)

# ---- atom predicates ------------------------------------------------------------------------

def call_true(rx, recv=None):
    def p(a):
        return a.kind == "call" and a.truth is True and re.fullmatch(rx, a.name or "") and (recv is None or a.recv == recv)
    return p

def call_false(rx, recv=None):
    def p(a):
        return a.kind == "call" and a.truth is False and re.fullmatch(rx, a.name or "") and (recv is None or a.recv == recv)
    return p

def variant_of_call(rx, name, recv=None, prog_f=None, path=None):
    """discriminant of (a projection of) the result of call rx is `name`.
    path: optional tuple of downcast variant names leading to the inspected place, e.g. ("Err",)"""
    def p(a):
        if a.kind != "variant" or a.name != name: return False
        o = a.origin
        dcs = []
        while o[0] in ("field", "downcast", "deref", "ref"):
            if o[0] == "downcast": dcs.append(o[2])
            o = o[1]
        dcs.reverse()
        if path is not None and tuple(dcs) != tuple(path): return False
        if o[0] == "phi":
            return any(x[0] == "call" and re.fullmatch(rx, x[2] or "") for x in o[2])
        return o[0] == "call" and re.fullmatch(rx, o[2] or "") is not None
    return p

def any_of(*ps):
    return lambda a: any(p(a) for p in ps)
