"""Build the facts of the macro-expansion witness crate against the analysed repository."""
import os, shutil, subprocess, tempfile, hashlib, json
import extract
from engine import Program

def load(prog_info, repo=None):
    repo = repo or os.environ.get("MAY_REPO", "/repo")
    out = os.path.join(os.path.dirname(prog_info["dir"]), "macrowit")
    src = os.path.join(extract.VERIF, "macrowit", "src", "lib.rs")
    stamp = hashlib.sha256(open(src, "rb").read()).hexdigest()[:16]
    marker = os.path.join(out, "OK-" + stamp)
    fact = os.path.join(out, "macrowit.json")
    if os.path.exists(marker) and os.path.exists(fact):
        return Program([fact])
    shutil.rmtree(out, ignore_errors=True); os.makedirs(out)
    work = tempfile.mkdtemp(prefix="may-macrowit-")
    try:
        os.makedirs(os.path.join(work, "src"))
        shutil.copy(src, os.path.join(work, "src", "lib.rs"))
        open(os.path.join(work, "Cargo.toml"), "w").write(
            '[package]\nname = "macrowit"\nversion = "0.0.0"\nedition = "2021"\n\n[workspace]\n\n[dependencies]\nmay = { path = "%s" }\n' % repo)
        shutil.copy(os.path.join(repo, "Cargo.lock"), os.path.join(work, "Cargo.lock"))
        env = dict(os.environ)
        env["LD_LIBRARY_PATH"] = os.path.join(extract.sysroot(), "lib") + ":" + env.get("LD_LIBRARY_PATH", "")
        env["RUSTFLAGS"] = "-Zmir-opt-level=0 -Awarnings"
        env["RUSTC_WORKSPACE_WRAPPER"] = extract.DRIVER
        env["CARGO_TARGET_DIR"] = os.path.join(work, "target")
        env["MAYFACTS_OUT"] = out
        env["CARGO_NET_OFFLINE"] = "true"
        r = subprocess.run(["cargo", "+nightly", "check", "--offline", "--lib"], cwd=work, env=env, stdout=subprocess.PIPE, stderr=subprocess.STDOUT, text=True)
        if r.returncode != 0 or not os.path.exists(fact):
            raise SystemExit("BROKEN-CHECKER: the macro-expansion witness crate does not compile against this tree:\n" + r.stdout[-3000:])
        open(marker, "w").write("ok")
    finally:
        shutil.rmtree(work, ignore_errors=True)
    return Program([fact])
