"""Rule engine primitives over mayfacts JSON: program model, point-level CFG, value tracing,
event matching with (depth-bounded) callee summaries, labelled edges, and the path queries
(must-pass-through, guarded exit, pairing) that the rule families are built from.
Pure Python 3 stdlib. Nothing here executes any code of the analysed program."""
import json, re, sys
from functools import lru_cache
from mirfmt import fmt_place, fmt_op, fmt_rv, fmt_fn

# ------------------------------------------------------------------------------------------------
# names

_GENERIC_CACHE = {}

def strip_generics(s):
    """Remove `<...>` generic argument groups that follow an identifier or `::`;
    keep the leading `<` of a qualified path `<T as Trait>::m`."""
    if s in _GENERIC_CACHE:
        return _GENERIC_CACHE[s]
    out = []
    i = 0
    n = len(s)
    depth_skip = 0
    while i < n:
        c = s[i]
        if depth_skip:
            if c == '<':
                depth_skip += 1
            elif c == '>' and s[i - 1] != '-':
                depth_skip -= 1
            i += 1
            continue
        if c == '<':
            prev = s[i - 1] if i > 0 else ''
            if prev.isalnum() or prev == '_' or (prev == ':' and i > 1 and s[i - 2] == ':'):
                # generic group: drop it, and a `::` immediately before it
                if prev == ':':
                    out.pop(); out.pop()
                depth_skip = 1
                i += 1
                continue
        out.append(c)
        i += 1
    r = ''.join(out)
    _GENERIC_CACHE[s] = r
    return r

ALIAS_FN = {}       # normalised id of a renamed function -> its id in the reference tree (renames.canonicalise)
FIELD_ALIAS = {}    # (normalised ADT path, field name) -> field name in the reference tree

def norm(s):
    if not s: return s
    r = strip_generics(s)
    if ALIAS_FN:
        a = ALIAS_FN.get(r)
        if a is not None: return a
        i = r.find("::{closure")
        if i > 0 and r[:i] in ALIAS_FN: return ALIAS_FN[r[:i]] + r[i:]
    return r

# ------------------------------------------------------------------------------------------------
# program model

class Point:
    __slots__ = ("bb", "i")
    def __init__(self, bb, i):
        self.bb = bb; self.i = i
    def __eq__(self, o): return self.bb == o.bb and self.i == o.i
    def __hash__(self): return hash((self.bb, self.i))
    def __lt__(self, o): return (self.bb, self.i) < (o.bb, o.i)
    def __repr__(self): return "bb%d[%d]" % (self.bb, self.i)

class Fn:
    def __init__(self, raw, prog):
        self.raw = raw
        self.prog = prog
        self.id = norm(raw["id"])
        self.rawid = raw["id"]
        self.file = raw["file"]; self.line = raw["line"]
        self.kind = raw["kind"]
        self.name = raw.get("name")
        self.vis = raw.get("vis")
        self.unsafe = raw.get("unsafe", False)
        self.self_adt = raw.get("self_adt")
        self.self_ty = raw.get("self_ty")
        self.trait = raw.get("trait")
        self.parent = norm(raw.get("parent")) if raw.get("parent") else None
        m = raw["mir"]
        self.argc = m["argc"]
        self.locals = m["locals"]
        self.blocks = m["blocks"]
        self.dbg = m["dbg"]
        self._defs = None
        self._names = None
        self._succ = {}
        self._trace_cache = {}

    def where(self, pt=None):
        if pt is None:
            return "%s:%s" % (self.file, self.line)
        return "%s:%s" % (self.blocks[pt.bb].get("file", self.file), self.node(pt).get("ln", self.line))

    # --- structure
    def nblocks(self): return len(self.blocks)
    def term(self, bb): return self.blocks[bb]["tm"]
    def stmts(self, bb): return self.blocks[bb]["st"]
    def is_cleanup(self, bb): return self.blocks[bb]["cl"]
    def term_point(self, bb): return Point(bb, len(self.blocks[bb]["st"]))
    def node(self, pt):
        st = self.blocks[pt.bb]["st"]
        return st[pt.i] if pt.i < len(st) else self.blocks[pt.bb]["tm"]
    def is_term(self, pt): return pt.i >= len(self.blocks[pt.bb]["st"])

    def points(self, cleanup=False):
        for bi, b in enumerate(self.blocks):
            if (b["cl"] and not cleanup) or b.get("ghost"):
                continue
            for i in range(len(b["st"]) + 1):
                yield Point(bi, i)

    def local_name(self, l):
        if self._names is None:
            self._names = {}
            for d in self.dbg:
                if not d["pl"]["p"]:
                    self._names.setdefault(d["pl"]["l"], d["n"])
        return self._names.get(l)

    # --- successors
    def term_succs(self, bb, unwind=False):
        """[(target_bb, label)] for the terminator of bb on the normal graph (plus unwind edges)."""
        key = (bb, unwind)
        if key in self._succ:
            return self._succ[key]
        t = self.term(bb)
        k = t["t"]
        out = []
        if k == "goto":
            out.append((t["ok"], None))
        elif k == "sw":
            seen = []
            for v, b in t["tg"]:
                out.append((b, ("sw", v)))
                seen.append(v)
            out.append((t["else"], ("sw_else", tuple(seen))))
        elif k in ("call", "drop", "assert"):
            if t.get("ok") is not None:
                out.append((t["ok"], None))
            if unwind and isinstance(t.get("uw"), int):
                out.append((t["uw"], ("unwind",)))
        elif k == "asm":
            for b in t.get("tg", []):
                out.append((b, None))
        # ret, resume, unreachable, terminate, tailcall: no successors
        self._succ[key] = out
        return out

    def succs(self, pt, unwind=False):
        """[(Point, label)]"""
        if not self.is_term(pt):
            return [(Point(pt.bb, pt.i + 1), None)]
        return [(Point(b, 0), lab) for (b, lab) in self.term_succs(pt.bb, unwind)]

    # --- defs
    def defs(self):
        """local -> list of (Point, kind, payload): kind in assign|call|arg"""
        if self._defs is None:
            d = {}
            for bi, b in enumerate(self.blocks):
                for si, s in enumerate(b["st"]):
                    if s["s"] == "=" and not s["l"]["p"]:
                        d.setdefault(s["l"]["l"], []).append((Point(bi, si), "assign", s["rv"]))
                t = b["tm"]
                if t["t"] == "call" and not t["d"]["p"]:
                    d.setdefault(t["d"]["l"], []).append((Point(bi, len(b["st"])), "call", t))
            self._defs = d
        return self._defs

    def ret_points(self):
        return [self.term_point(bi) for bi, b in enumerate(self.blocks) if b["tm"]["t"] == "ret" and not b["cl"]]

    def __repr__(self): return "Fn(%s)" % self.id


class Program:
    def __init__(self, fact_files):
        self.fns = {}
        self.adts = {}
        self.impls = []
        self.crates = []
        for path in fact_files:
            d = path if isinstance(path, dict) else json.load(open(path))
            self.crates.append(d["crate"])
            for raw in d["fns"]:
                f = Fn(raw, self)
                if f.id in self.fns:
                    # disambiguate duplicates (e.g. same method name in several impl blocks)
                    k = 2
                    while "%s#%d" % (f.id, k) in self.fns:
                        k += 1
                    f.id = "%s#%d" % (f.id, k)
                self.fns[f.id] = f
            for a in d["adts"]:
                self.adts[norm(a["path"])] = a
            for im in d["impls"]:
                self.impls.append(im)
        self._closure_parent = None
        self._callers = None

    def fn(self, id):
        return self.fns.get(id)

    def find(self, pattern):
        rx = re.compile(pattern)
        return [f for k, f in sorted(self.fns.items()) if rx.search(k)]

    def impls_of(self, trait):
        return [im for im in self.impls if norm(im.get("trait") or "") == trait]

    def closures_of(self, f):
        pres = tuple(x + "::{closure#" for x in [f.id] + list(getattr(f, "inlined", ())))
        return [g for k, g in sorted(self.fns.items()) if k.startswith(pres)]

    def callers(self):
        """callee id -> set of (caller Fn, Point)"""
        if self._callers is None:
            c = {}
            for f in self.fns.values():
                for pt in f.points(cleanup=True):
                    if f.is_term(pt):
                        t = f.node(pt)
                        if t["t"] in ("call", "tailcall"):
                            for cid in callee_ids(t):
                                c.setdefault(cid, set()).add((f, pt))
                    else:
                        # function items referenced as values (fn pointers, closures passed on)
                        pass
            self._callers = c
        return self._callers

# ------------------------------------------------------------------------------------------------
# callee helpers

def callee(t):
    """(written path, resolved path or None) normalised, for a call terminator"""
    f = t["f"]
    if "fn" in f:
        return norm(f["fn"]["p"]), (norm(f["fn"]["r"]) if f["fn"].get("r") else None)
    return None, None

def callee_ids(t):
    p, r = callee(t)
    return [x for x in (r, p) if x] if r != p else ([p] if p else [])

def callee_name(t):
    p, r = callee(t)
    return r or p

def callee_generic_args(t):
    f = t["f"]
    if "fn" in f:
        return f["fn"].get("ga", [])
    return []

# ------------------------------------------------------------------------------------------------
# value tracing

DEREF_CALLS = (
    "std::ops::Deref::deref", "std::ops::DerefMut::deref_mut",
    "<std::sync::Arc as std::ops::Deref>::deref", "<std::boxed::Box as std::ops::Deref>::deref",
    "<std::rc::Rc as std::ops::Deref>::deref",
    "std::cell::UnsafeCell::get", "std::convert::AsRef::as_ref", "std::borrow::Borrow::borrow",
    "<std::sync::Arc as std::convert::AsRef>::as_ref",
    "std::ptr::NonNull::as_ref", "std::ptr::NonNull::as_ptr", "std::ptr::NonNull::as_mut",
    "std::option::Option::as_ref", "std::option::Option::as_mut",
    "std::mem::ManuallyDrop::deref", "<std::mem::ManuallyDrop as std::ops::Deref>::deref",
)
INDEX_CALLS = (
    "core::slice::<impl [T]>::get_unchecked", "core::slice::<impl [T]>::get_unchecked_mut",
    "std::ops::Index::index", "std::ops::IndexMut::index_mut",
    "<std::vec::Vec as std::ops::Index>::index", "<smallvec::SmallVec as std::ops::Index>::index",
    "<std::vec::Vec as std::ops::Deref>::deref",
)
CLONE_CALLS = ("std::clone::Clone::clone", "<std::sync::Arc as std::clone::Clone>::clone")
PASSTHROUGH_CALLS = ("may::likely::likely", "may::likely::unlikely", "std::convert::Into::into",
                     "std::convert::From::from", "std::hint::black_box")

_DEREF_RX = re.compile(r"<(std|core|alloc|smallvec|crossbeam\w*|parking_lot|may_queue::atomic)::[^ ]* as std::ops::Deref(Mut)?>::deref(_mut)?")
_INDEX_RX = re.compile(r"(core::slice|std::vec::Vec|smallvec::SmallVec|std::slice)(::\w+)*::(get_unchecked|get_unchecked_mut|index|index_mut|get|get_mut)|<[^ ]* as std::ops::Index(Mut)?>::index(_mut)?")
_UNWRAP_RX = re.compile(r"std::(option::Option|result::Result)::(unwrap|expect|unwrap_unchecked)")

class Origin(tuple):
    """nested tuples: (kind, ...)"""
    pass

def O(*a): return Origin(a)

def trace_place(f, place, depth=0, at=None):
    base = trace_local(f, place["l"], depth, at)
    for e in place["p"]:
        if e == "*":
            base = O("deref", base)
        elif isinstance(e, dict):
            if "f" in e:
                adt_n = norm(e["a"])
                base = O("field", base, adt_n, FIELD_ALIAS.get((adt_n, e["f"]), e["f"]) if FIELD_ALIAS else e["f"])
            elif "dc" in e:
                tb = _try_branch_arg(f, base, depth)
                if tb is not None and e["dc"] == "Continue":
                    # `x?`: (Try::branch(x) as Continue).0 is the payload of x, same shape as `if let Some(v) = x`
                    base = O("downcast", tb[0], "Some" if tb[1] == "Option" else "Ok")
                else:
                    base = O("downcast", base, e["dc"])
            elif "ix" in e:
                base = O("index", base, trace_local(f, e["ix"], depth + 1))
            elif "cix" in e:
                base = O("index", base, O("const", str(e["cix"]), str(e["cix"])))
        # opaque etc ignored
    return base

_TRY_RX = re.compile(r"<std::(option::Option|result::Result) as std::ops::Try>::branch")
def _try_branch_arg(f, o, depth=0):
    """o is the result of `Try::branch(x)` -> (origin of x, "Option"|"Result")"""
    if o[0] != "call" or not o[2]: return None
    m = _TRY_RX.fullmatch(o[2])
    if not m: return None
    t = f.term(o[1])
    if t.get("t") != "call" or not t["args"]: return None
    return trace_operand(f, t["args"][0], depth + 1), ("Option" if "Option" in m.group(1) else "Result")

def trace_local(f, l, depth=0, at=None):
    key = l
    if key in f._trace_cache and at is None:
        return f._trace_cache[key]
    if depth > 24:
        return O("local", l)
    if 1 <= l <= f.argc:
        r = O("arg", l)
        f._trace_cache[key] = r
        return r
    ds = f.defs().get(l, [])
    # ignore drop-flag style re-definitions: only consider non-cleanup defs
    ds = [d for d in ds if not f.is_cleanup(d[0].bb)] or ds
    if len(ds) == 1:
        f._trace_cache[key] = O("local", l)  # recursion guard
        pt, kind, payload = ds[0]
        if kind == "call":
            r = trace_call(f, pt, payload, depth)
        else:
            r = trace_rvalue(f, payload, depth + 1, pt)
        f._trace_cache[key] = r
        return r
    if len(ds) == 0:
        r = O("local", l)
    else:
        f._trace_cache[key] = O("local", l)
        alts = []
        for pt, kind, payload in ds[:6]:
            if kind == "call":
                alts.append(trace_call(f, pt, payload, depth))
            else:
                alts.append(trace_rvalue(f, payload, depth + 1, pt))
        r = O("phi", l, tuple(alts))
    f._trace_cache[key] = r
    return r

def trace_call(f, pt, t, depth):
    name = callee_name(t)
    p, r = callee(t)
    if name and (name in DEREF_CALLS or p in DEREF_CALLS) and t["args"]:
        return O("deref", trace_operand(f, t["args"][0], depth + 1))
    if name and (_DEREF_RX.fullmatch(name) or (p and _DEREF_RX.fullmatch(p))) and t["args"]:
        return O("deref", trace_operand(f, t["args"][0], depth + 1))
    if name and (name in INDEX_CALLS or p in INDEX_CALLS or _INDEX_RX.fullmatch(name)) and t["args"]:
        idx = trace_operand(f, t["args"][1], depth + 1) if len(t["args"]) > 1 else None
        return O("index", trace_operand(f, t["args"][0], depth + 1), idx)
    if name and _UNWRAP_RX.fullmatch(name) and t["args"]:
        return trace_operand(f, t["args"][0], depth + 1)
    if name and (name in CLONE_CALLS or p in CLONE_CALLS) and t["args"]:
        return O("clone", trace_operand(f, t["args"][0], depth + 1))
    if name and (name in PASSTHROUGH_CALLS or p in PASSTHROUGH_CALLS) and len(t["args"]) == 1:
        return trace_operand(f, t["args"][0], depth + 1)
    return O("call", pt.bb, name)

def trace_operand(f, o, depth=0):
    if "c" in o: return trace_place(f, o["c"], depth)
    if "m" in o: return trace_place(f, o["m"], depth)
    if "fn" in o: return O("fnitem", norm(o["fn"].get("r") or o["fn"]["p"]))
    return O("const", o.get("k"), o.get("v"), tuple(o.get("pr", ())), o.get("cdef"))

def trace_rvalue(f, rv, depth, pt=None):
    r = rv["r"]
    if r == "use": return trace_operand(f, rv["o"], depth)
    if r in ("ref", "raw"): return O("ref", trace_place(f, rv["pl"], depth))
    if r == "cfd": return trace_place(f, rv["pl"], depth)
    if r == "cast":
        return O("cast", trace_operand(f, rv["o"], depth), rv["ck"], rv["ty"])
    if r == "bin":
        return O("bin", rv["op"], trace_operand(f, rv["a"], depth), trace_operand(f, rv["b"], depth))
    if r == "un":
        return O("un", rv["op"], trace_operand(f, rv["o"], depth))
    if r == "discr":
        vs = rv.get("vars")
        return O("discr", trace_place(f, rv["pl"], depth), tuple((int(a), b) for a, b in vs) if vs else None)
    if r == "agg":
        ops = tuple(trace_operand(f, o, depth) for o in rv["ops"])
        if rv["ak"] == "adt": return O("agg", norm(rv["adt"]), rv["var"], ops)
        if rv["ak"] == "closure": return O("closure", norm(rv["did"]), ops)
        return O("agg", rv["ak"], None, ops)
    if r == "tlref": return O("static", norm(rv["did"]))
    return O("other", r)

def simplify(o):
    """cancel ref/deref pairs, drop clones and pointer casts"""
    k = o[0]
    if k == "deref":
        b = simplify(o[1])
        if b[0] == "ref": return b[1]
        return O("deref", b)
    if k == "ref":
        b = simplify(o[1])
        if b[0] == "deref": return b[1]
        return O("ref", b)
    if k == "clone":
        return simplify(o[1])
    if k == "field":
        b = simplify(o[1])
        if b[0] == "agg" and b[1] == "tuple" and b[3] and str(o[3]).isdigit() and int(o[3]) < len(b[3]):
            # projection of a tuple built in place (`match (a, b) { .. }`, assert_eq!): the component itself
            return simplify(b[3][int(o[3])])
        if b[0] == "downcast" and str(o[3]).isdigit():
            # payload of variant V of a value that was built in place as V(..) on the paths that reach here with V
            # (`let w = match x { MAX => None, id => Some(id) }; match w { Some(id) => .. }`): the component itself
            src = b[1]; alts = src[2] if src[0] == "phi" else (src,)
            picked = []
            for a in alts:
                a = simplify(a)
                if a[0] == "agg" and a[2] is not None and a[1] != "tuple":
                    if a[2] == b[2] and int(o[3]) < len(a[3]): picked.append(simplify(a[3][int(o[3])]))
                    elif a[2] != b[2]: continue
                    else: picked = None; break
                else: picked = None; break
            if picked:
                return picked[0] if len(picked) == 1 else O("phi", src[1] if src[0] == "phi" else -1, tuple(picked))
        return O("field", b, o[2], o[3])
    if k == "downcast": return O("downcast", simplify(o[1]), o[2])
    if k == "index": return O("index", simplify(o[1]), simplify(o[2]) if len(o) > 2 and o[2] is not None else None)
    if k == "cast":
        if o[2].startswith("Ptr") or o[2].startswith("PointerCoercion") or o[2] == "transmute":
            return simplify(o[1])
        return O("cast", simplify(o[1]), o[2], o[3])
    if k == "discr": return O("discr", simplify(o[1]), o[2] if len(o) > 2 else None)
    return o

def field_chain(o):
    """list of (adt, field) from root to leaf, ignoring ref/deref/downcast/index/clone/casts"""
    chain = []
    cur = o
    while True:
        k = cur[0]
        if k == "field":
            chain.append((cur[2], cur[3])); cur = cur[1]
        elif k in ("deref", "ref", "downcast", "index", "clone", "discr"):
            cur = cur[1]
        elif k == "cast":
            cur = cur[1]
        else:
            break
    chain.reverse()
    return chain, cur

def leaf_field(o):
    ch, root = field_chain(o)
    return ("%s.%s" % ch[-1]) if ch else None

def all_fields(o):
    ch, root = field_chain(o)
    return ["%s.%s" % c for c in ch]

def root_of(o):
    return field_chain(o)[1]

def fmt_origin(o, depth=0):
    if depth > 6: return "…"
    k = o[0]
    if k == "arg": return "arg%d" % o[1]
    if k == "local": return "_%d" % o[1]
    if k == "const": return "const %s" % (o[1],)
    if k == "call": return "call[%s@bb%d]" % (o[2], o[1])
    if k == "field": return "%s.%s" % (fmt_origin(o[1], depth + 1), o[3])
    if k == "deref": return "*%s" % fmt_origin(o[1], depth + 1)
    if k == "ref": return "&%s" % fmt_origin(o[1], depth + 1)
    if k == "downcast": return "(%s as %s)" % (fmt_origin(o[1], depth + 1), o[2])
    if k == "index": return "%s[..]" % fmt_origin(o[1], depth + 1)
    if k == "clone": return "clone(%s)" % fmt_origin(o[1], depth + 1)
    if k == "cast": return "%s as %s" % (fmt_origin(o[1], depth + 1), o[3])
    if k == "bin": return "%s(%s,%s)" % (o[1], fmt_origin(o[2], depth + 1), fmt_origin(o[3], depth + 1))
    if k == "un": return "%s(%s)" % (o[1], fmt_origin(o[2], depth + 1))
    if k == "discr": return "discr(%s)" % fmt_origin(o[1], depth + 1)
    if k == "agg": return "%s::%s{..}" % (o[1], o[2])
    if k == "closure": return "closure %s" % o[1]
    if k == "phi": return "phi(_%d)" % o[1]
    if k == "fnitem": return "fn %s" % o[1]
    if k == "static": return "static %s" % o[1]
    return str(tuple(o))

# ------------------------------------------------------------------------------------------------
# constants: orderings etc.

ORDERINGS = ("Relaxed", "Release", "Acquire", "AcqRel", "SeqCst")

def ordering_of(f, operand):
    """Resolve an operand of type atomic::Ordering to its variant name (or None)."""
    o = simplify(trace_operand(f, operand))
    return _ordering_origin(o)

def _ordering_origin(o):
    if o[0] == "agg" and o[1] == "std::sync::atomic::Ordering":
        return o[2]
    if o[0] == "const" and o[1]:
        for n in ORDERINGS:
            if o[1].endswith("::" + n) or o[1] == n:
                return n
    if o[0] == "phi":
        vals = set(_ordering_origin(a) for a in o[2])
        if len(vals) == 1:
            return vals.pop()
    return None

def const_int(f, operand):
    o = simplify(trace_operand(f, operand))
    while o[0] == "cast":
        o = o[1]
    if o[0] == "const" and o[2] is not None:
        try: return int(o[2])
        except Exception: return None
    return None

# ------------------------------------------------------------------------------------------------
# closures passed to combinators: how often the callee invokes them
# value: always | if_some | if_none | if_ok | if_err | maybe | spawned (other thread / later)

COMBINATORS = {
    "std::option::Option::map": "if_some",
    "std::option::Option::and_then": "if_some",
    "std::option::Option::map_or": "if_some",
    "std::option::Option::unwrap_or_else": "if_none",
    "std::option::Option::ok_or_else": "if_none",
    "std::option::Option::or_else": "if_none",
    "std::result::Result::map": "if_ok",
    "std::result::Result::and_then": "if_ok",
    "std::result::Result::map_err": "if_err",
    "std::result::Result::unwrap_or_else": "if_err",
    "std::result::Result::or_else": "if_err",
    "std::thread::LocalKey::with": "always",
    "std::ops::FnOnce::call_once": "always",
    "std::ops::FnMut::call_mut": "always",
    "std::ops::Fn::call": "always",
    "std::thread::spawn": "spawned",
    "std::panic::catch_unwind": "always",
    "std::sync::Once::call_once": "maybe",
    "std::iter::Iterator::map": "maybe",
    "std::iter::Iterator::fold": "maybe",
    "std::iter::Iterator::for_each": "maybe",
}

def closure_args(f, t):
    """closures (fn ids) created in f and passed by value/ref to this call"""
    out = []
    for a in t["args"]:
        o = simplify(trace_operand(f, a))
        while o[0] in ("ref", "deref"):
            o = o[1]
        if o[0] == "closure":
            out.append(o[1])
        elif o[0] == "fnitem" and "{closure#fn:" in o[1]:
            out.append(o[1])        # a named fn that replaced a closure (inline.normalise gave it a closure id)
        elif o[0] == "agg" and o[3]:
            # a closure wrapped in a newtype (AssertUnwindSafe(|| ..), Box::new is a call and not covered)
            for x in o[3]:
                x = simplify(x)
                while x[0] in ("ref", "deref"): x = x[1]
                if x[0] == "closure": out.append(x[1])
    return out

# ------------------------------------------------------------------------------------------------
# events

class Ev:
    """An event pattern. kind:
       call   — call whose resolved/written callee matches `fn` (regex, fullmatch on normalised
                path) and, if given, whose receiver (arg 0) leaf field is `on` ("Adt.field") or
                whose receiver field chain contains `on_any`; `ord_in` restricts the memory
                ordering argument; `where` is an extra predicate (f, pt, t) -> bool.
       write  — assignment to a place whose leaf field is `on`
       read   — statement reading a place whose field chain ends with `on`
       agg    — construction of `adt::var`
       drop   — Drop terminator whose type matches regex `ty`
       ret    — function return
    """
    def __init__(self, kind, fn=None, on=None, on_any=None, ty=None, adt=None, var=None,
                 where=None, label=None, arg_on=None, transitive=True):
        self.kind = kind
        self.fn = re.compile(fn) if fn else None
        self.on = on
        self.on_any = on_any
        self.ty = re.compile(ty) if ty else None
        self.adt = adt; self.var = var
        self.where = where
        self.arg_on = arg_on
        self.transitive = transitive and kind != "ret"
        self.label = label or self._mk_label(fn)

    def _mk_label(self, fn):
        if self.kind == "call":
            s = "call %s" % (fn,)
            if self.on: s += " on %s" % self.on
            return s
        if self.kind in ("write", "read"): return "%s %s" % (self.kind, self.on)
        if self.kind == "agg": return "construct %s::%s" % (self.adt, self.var)
        if self.kind == "drop": return "drop of %s" % (self.ty.pattern,)
        return self.kind

    def __repr__(self): return "Ev(%s)" % self.label

def AnyEv(*evs, label=None, transitive=None):
    """an event that is any one of `evs` (e.g. "the helper is called" or "its one primitive is performed directly")"""
    e = Ev("any", label=label or " | ".join(x.label for x in evs), transitive=any(x.transitive for x in evs) if transitive is None else transitive)
    e.subs = list(evs)
    return e

def Call(fn, on=None, **kw): return Ev("call", fn=fn, on=on, **kw)
def Write(on, **kw): return Ev("write", on=on, **kw)
def Read(on, **kw): return Ev("read", on=on, **kw)
def Agg(adt, var, **kw): return Ev("agg", adt=adt, var=var, **kw)
def DropOf(ty, **kw): return Ev("drop", ty=ty, **kw)

def _upvar_fields(f, o, depth=0):
    """field chain of an origin; a leading closure-upvar projection (`(*arg1).N` inside a closure) is replaced by the field chain
    of what the parent function captured there (edition-2021 closures capture `self.field` directly, not `self`)"""
    ch, root = field_chain(o)
    fields = ["%s.%s" % c for c in ch]
    if depth < 3 and ch and ch[0][0].startswith("closure:") and root[0] == "arg" and root[1] == 1 and "::{closure" in f.id:
        parent = f.prog.fns.get(f.id.rsplit("::{closure", 1)[0]) if f.prog is not None else None
        try: idx = int(ch[0][1])
        except ValueError: idx = None
        if parent is not None and idx is not None:
            cid = ch[0][0][len("closure:"):]
            for b in parent.blocks:
                if b.get("ghost"): continue
                for st in b["st"]:
                    if st.get("s") == "=" and st["rv"]["r"] == "agg" and st["rv"].get("ak") == "closure" and norm(st["rv"]["did"]) == norm(cid) and idx < len(st["rv"]["ops"]):
                        po = simplify(trace_operand(parent, st["rv"]["ops"][idx]))
                        return _upvar_fields(parent, po, depth + 1) + fields[1:]
    return fields

def receiver_fields(f, t, argi=0):
    if len(t["args"]) <= argi:
        return []
    return _upvar_fields(f, simplify(trace_operand(f, t["args"][argi])))

def receiver_leaf(f, t, argi=0):
    fs = receiver_fields(f, t, argi)
    return fs[-1] if fs else None

def rvalue_places(rv):
    r = rv["r"]
    out = []
    def opnd(o):
        if "c" in o: out.append(o["c"])
        elif "m" in o: out.append(o["m"])
    if r in ("use", "cast", "un", "repeat", "wrapbinder"): opnd(rv["o"])
    elif r in ("ref", "raw", "discr", "cfd"): out.append(rv["pl"])
    elif r == "bin": opnd(rv["a"]); opnd(rv["b"])
    elif r == "agg":
        for o in rv["ops"]: opnd(o)
    return out

def direct_match(f, pt, ev):
    """Does the node at pt itself match ev (no callee summaries)?"""
    n = f.node(pt)
    if ev.kind == "any":
        return any(direct_match(f, pt, x) for x in ev.subs)
    if ev.kind == "call":
        if not f.is_term(pt) or n["t"] not in ("call", "tailcall"):
            return False
        p, r = callee(n)
        if not ((r and ev.fn.fullmatch(r)) or (p and ev.fn.fullmatch(p))):
            return False
        if ev.on is not None:
            if receiver_leaf(f, n) != ev.on:
                return False
        if ev.on_any is not None:
            if ev.on_any not in receiver_fields(f, n):
                return False
        if ev.arg_on is not None:
            ai, fld = ev.arg_on
            if fld not in receiver_fields(f, n, ai):
                return False
        if ev.where is not None and not ev.where(f, pt, n):
            return False
        return True
    if ev.kind == "write":
        if f.is_term(pt):
            return False
        if n["s"] not in ("=", "setdiscr"):
            return False
        if not n["l"]["p"]:
            return False          # assignment to a plain local is not a field write
        fs = all_fields(simplify(trace_place(f, n["l"])))
        if not fs or fs[-1] != ev.on:
            return False
        if ev.where is not None and not ev.where(f, pt, n):
            return False
        return True
    if ev.kind == "read":
        if f.is_term(pt):
            if n["t"] == "sw":
                pls = [n["o"].get("c") or n["o"].get("m")] if ("c" in n["o"] or "m" in n["o"]) else []
            else:
                return False
        else:
            if n["s"] != "=": return False
            pls = rvalue_places(n["rv"])
        for pl in pls:
            if not pl["p"]:
                continue
            fs = all_fields(simplify(trace_place(f, pl)))
            if fs and ev.on in fs:
                if ev.where is None or ev.where(f, pt, n):
                    return True
        return False
    if ev.kind == "agg":
        if f.is_term(pt) or n["s"] != "=": return False
        rv = n["rv"]
        if rv["r"] == "agg" and rv["ak"] == "adt" and re.fullmatch(ev.adt, norm(rv["adt"])) and (ev.var is None or rv["var"] == ev.var):
            return ev.where is None or ev.where(f, pt, n)
        return False
    if ev.kind == "drop":
        if not f.is_term(pt) or n["t"] != "drop": return False
        if not ev.ty.search(n["ty"]): return False
        return ev.where is None or ev.where(f, pt, n)
    if ev.kind == "ret":
        return f.is_term(pt) and n["t"] == "ret"
    raise ValueError(ev.kind)

# ------------------------------------------------------------------------------------------------
# summaries: may / must perform, through local callees and closures handed to combinators

MAX_DEPTH = 5

class Analysis:
    def __init__(self, prog):
        self.prog = prog
        self._may = {}
        self._must = {}
        self.queries = 0

    # -- call targets of a call site inside the analysed workspace
    def local_targets(self, f, pt):
        """[(Fn, certainty)] callee bodies run synchronously by the call at pt.
        certainty: always | if_some | ... | maybe"""
        t = f.node(pt)
        out = []
        if t["t"] not in ("call", "tailcall"):
            return out
        p, r = callee(t)
        tgt = None
        if r and r in self.prog.fns: tgt = self.prog.fns[r]
        elif p and p in self.prog.fns: tgt = self.prog.fns[p]
        if tgt is not None:
            out.append((tgt, "always"))
        elif p is not None and r is None:
            # unresolved trait method: every local impl is a possible target
            mname = p.rsplit("::", 1)[-1]
            trait = p.rsplit("::", 1)[0]
            for im in self.prog.impls_of(trait):
                for m in im["methods"]:
                    if m["n"] == mname:
                        g = self.prog.fns.get(norm(m["id"]))
                        if g is not None:
                            out.append((g, "maybe"))
        # closures passed as arguments
        name = r or p
        cls = closure_args(f, t)
        if cls:
            cert = COMBINATORS.get(name)
            if cert is None and name and name in self.prog.fns:
                cert = "maybe"   # local higher-order fn
            if cert is None:
                cert = "maybe"
            if cert == "if_some" or cert == "if_ok":
                if self._result_unwrapped(f, pt):
                    cert = "always"
            for c in cls:
                g = self.prog.fns.get(c)
                if g is not None and cert != "spawned":
                    out.append((g, cert))
        return out

    def _result_unwrapped(self, f, pt):
        """the call's destination flows directly into expect/unwrap (so a None/Err result never
        continues on the normal graph)"""
        t = f.node(pt)
        d = t["d"]
        if d["p"] or t.get("ok") is None:
            return False
        dl = d["l"]
        b = t["ok"]
        for _ in range(3):
            tt = f.term(b)
            if tt["t"] == "call":
                nm = callee_name(tt) or ""
                if nm in ("std::option::Option::expect", "std::option::Option::unwrap",
                          "std::result::Result::expect", "std::result::Result::unwrap"):
                    if tt["args"]:
                        o = tt["args"][0]
                        pl = o.get("m") or o.get("c")
                        if pl and pl["l"] == dl and not pl["p"]:
                            return True
                        # moved through a temp
                        if pl and not pl["p"]:
                            oo = trace_local(f, pl["l"])
                            if oo[0] == "call" and oo[1] == pt.bb:
                                return True
                return False
            if tt["t"] == "goto":
                b = tt["ok"]; continue
            return False
        return False

    # -- may
    def may(self, f, ev, depth=0, stack=()):
        key = (f.id, ev)          # the Ev object itself (identity hash): the cache keeps it alive, so its identity cannot be reused by a later event
        if key in self._may:
            return self._may[key]
        if depth > MAX_DEPTH or f.id in stack:
            return False
        res = False
        for pt in f.points():
            if direct_match(f, pt, ev):
                res = True; break
            if ev.transitive and f.is_term(pt) and f.node(pt)["t"] in ("call", "tailcall"):
                for g, cert in self.local_targets(f, pt):
                    if self.may(g, ev, depth + 1, stack + (f.id,)):
                        res = True; break
                if res: break
        if not stack:
            self._may[key] = res
        return res

    # -- must: every normal path from entry to a return passes a site that must perform ev
    def must(self, f, ev, depth=0, stack=()):
        key = (f.id, ev)          # the Ev object itself (identity hash): the cache keeps it alive, so its identity cannot be reused by a later event
        if key in self._must:
            return self._must[key]
        if depth > MAX_DEPTH or f.id in stack:
            return False
        sites = self.sites(f, ev, "must", depth, stack)
        rets = f.ret_points()
        res = True
        if rets:
            reach = self.reach(f, [Point(0, 0)], blocked=sites)
            res = not any(r in reach for r in rets)
        else:
            res = False   # never returns normally: vacuous, treat as not-must
        if not stack:
            self._must[key] = res
        return res

    def sites(self, f, ev, mode, depth=0, stack=()):
        """set of Points in f (normal graph) at which ev happens: directly, or in a callee
        (mode may: possibly; mode must: certainly before the call returns normally)"""
        self.queries += 1
        out = set()
        for pt in f.points():
            if direct_match(f, pt, ev):
                out.add(pt); continue
            if ev.transitive and f.is_term(pt) and f.node(pt)["t"] in ("call", "tailcall"):
                for g, cert in self.local_targets(f, pt):
                    if mode == "may":
                        if self.may(g, ev, depth + 1, stack + (f.id,)):
                            out.add(pt); break
                    else:
                        if cert == "always" and self.must(g, ev, depth + 1, stack + (f.id,)):
                            out.add(pt); break
        return out

    # -- graph search
    def reach(self, f, starts, blocked=(), blocked_edges=None, unwind=False, include_start=True):
        """Points reachable from `starts` without passing *through* a blocked point.
        A blocked point is itself never entered. blocked_edges: predicate(pt, succ_pt, label)->bool"""
        blocked = set(blocked)
        seen = set()
        work = []
        for s in starts:
            if s in blocked and include_start:
                continue
            work.append(s)
        first = set(starts)
        while work:
            p = work.pop()
            if p in seen:
                continue
            seen.add(p)
            for q, lab in f.succs(p, unwind):
                if q in blocked or q in seen:
                    continue
                if blocked_edges is not None and blocked_edges(p, q, lab):
                    continue
                work.append(q)
        return seen

    def after(self, f, pt, unwind=False):
        """successor points of pt (start set for 'after pt' queries)"""
        return [q for q, _ in f.succs(pt, unwind)]

    def path(self, f, starts, goal, blocked=(), blocked_edges=None, unwind=False):
        """a shortest path (list of Points) from starts to a point in goal avoiding blocked"""
        from collections import deque
        blocked = set(blocked); goal = set(goal)
        prev = {}
        dq = deque()
        for s in starts:
            if s in blocked: continue
            prev[s] = None; dq.append(s)
        while dq:
            p = dq.popleft()
            if p in goal:
                out = []
                while p is not None:
                    out.append(p); p = prev[p]
                return list(reversed(out))
            for q, lab in f.succs(p, unwind):
                if q in blocked or q in prev: continue
                if blocked_edges is not None and blocked_edges(p, q, lab): continue
                prev[q] = p; dq.append(q)
        return None

    def fmt_path(self, f, path, maxn=14):
        if not path: return ""
        bbs = []
        for p in path:
            if not bbs or bbs[-1] != p.bb:
                bbs.append(p.bb)
        lines = []
        for b in bbs:
            t = f.term(b)
            d = t["t"]
            if d == "call": d = "call %s" % (callee_name(t) or "<indirect>")
            elif d == "sw": d = "switch"
            lines.append("bb%d(L%s %s)" % (b, t.get("ln"), d))
        if len(lines) > maxn:
            lines = lines[:maxn // 2] + ["…"] + lines[-maxn // 2:]
        return " -> ".join(lines)

# ------------------------------------------------------------------------------------------------
# edge labels

STD_VARIANTS = {
    "std::option::Option": {0: "None", 1: "Some"},
    "std::result::Result": {0: "Ok", 1: "Err"},
    "core::option::Option": {0: "None", 1: "Some"},
    "core::result::Result": {0: "Ok", 1: "Err"},
}

def adt_of_type(tystr):
    s = tystr.strip()
    while s.startswith("&"):
        s = s[1:].strip()
        if s.startswith("mut "): s = s[4:]
        if s.startswith("'"):
            s = s.split(" ", 1)[1] if " " in s else s
    return norm(s.split("<", 1)[0]) if "<" in s else norm(s)

class EdgeInfo:
    """What a switch edge tells us: `origin` (simplified Origin of the switch operand) takes
    value `val` (int) when eq is True, or is not in `vals` when eq is False."""
    def __init__(self, origin, eq, vals, variant=None, dty=None):
        self.origin = origin; self.eq = eq; self.vals = vals; self.variant = variant; self.dty = dty
    def __repr__(self):
        return "Edge(%s %s %s%s)" % (fmt_origin(self.origin), "==" if self.eq else "∉", self.vals,
                                     (" " + str(self.variant)) if self.variant else "")

def _preds(f):
    if getattr(f, "_predmap", None) is None:
        pm = {}
        for bi, b in enumerate(f.blocks):
            if b.get("ghost"): continue
            for (tb, _) in f.term_succs(bi):
                pm.setdefault(tb, set()).add(bi)
        f._predmap = pm
    return f._predmap

def reaching_defs(f, l, bb, pos):
    """definitions of local l that reach position `pos` of block bb (statements [0, pos) of bb are before it): list of (Point, kind, payload)"""
    defs = {}
    for (pt, kind, payload) in f.defs().get(l, []):
        defs.setdefault(pt.bb, []).append((pt, kind, payload))
    out = []; seen = set()
    stack = [(bb, pos)]
    pm = _preds(f)
    while stack:
        b, p = stack.pop()
        cands = [d for d in defs.get(b, []) if d[0].i < p]
        if cands:
            d = max(cands, key=lambda x: x[0].i)
            if d not in out: out.append(d)
            continue
        for pb in pm.get(b, ()):
            if pb in seen: continue
            seen.add(pb)
            stack.append((pb, len(f.blocks[pb]["st"]) + 1))
    return out

def trace_operand_at(f, op, bb, pos, depth=0):
    """flow-sensitive origin of an operand used at (bb, pos): follows copies / Not / casts through the definitions that actually
    reach the use (after jump threading a boolean temporary often has one reaching definition although it has several in the body)"""
    pl = op.get("c") or op.get("m")
    if pl is None or pl["p"] or depth > 8:
        return trace_operand(f, op)
    l = pl["l"]
    if len(f.defs().get(l, [])) <= 1 and depth == 0:
        pass
    rd = reaching_defs(f, l, bb, pos)
    if len(rd) != 1:
        return trace_operand(f, op)
    pt, kind, payload = rd[0]
    if kind == "call":
        return trace_call(f, pt, payload, 0)
    rv = payload
    if rv["r"] == "use":
        return trace_operand_at(f, rv["o"], pt.bb, pt.i, depth + 1)
    if rv["r"] == "un":
        return O("un", rv["op"], trace_operand_at(f, rv["o"], pt.bb, pt.i, depth + 1))
    if rv["r"] == "cast":
        return O("cast", trace_operand_at(f, rv["o"], pt.bb, pt.i, depth + 1), rv["ck"], rv["ty"])
    if rv["r"] == "bin":
        return O("bin", rv["op"], trace_operand_at(f, rv["a"], pt.bb, pt.i, depth + 1), trace_operand_at(f, rv["b"], pt.bb, pt.i, depth + 1))
    if rv["r"] == "discr":
        dpl = rv["pl"]
        if not dpl["p"]:
            inner = trace_operand_at(f, {"c": dpl}, pt.bb, pt.i, depth + 1)
            vs = rv.get("vars")
            return O("discr", inner, tuple((int(a), b) for a, b in vs) if vs else None)
    return trace_rvalue(f, rv, 0, pt)

def switch_info(f, bb):
    """operand origin of the switch terminating bb"""
    t = f.term(bb)
    assert t["t"] == "sw"
    return simplify(trace_operand_at(f, t["o"], bb, len(f.blocks[bb]["st"])))

def variant_names(prog, f, origin):
    """for a discr(origin) find {discr value: variant name}"""
    ty = type_of_origin(f, origin)
    if ty is None:
        return None
    a = adt_of_type(ty)
    if a in STD_VARIANTS:
        return STD_VARIANTS[a]
    ad = prog.adts.get(a)
    if ad and ad["kind"] == "Enum":
        return {i: v["n"] for i, v in enumerate(ad["variants"])}
    return None

def type_of_origin(f, o):
    """best-effort static type string of an origin inside f"""
    k = o[0]
    if k == "arg" or k == "local" or k == "phi":
        return f.locals[o[1]]
    if k == "call":
        t = f.term(o[1])
        return type_of_place(f, t["d"])
    if k in ("deref",):
        t = type_of_origin(f, o[1])
        if t is None: return None
        t = t.strip()
        if t.startswith("&"):
            t = re.sub(r"^&('\w+ )?(mut )?", "", t)
            return t
        if t.startswith("*const ") : return t[7:]
        if t.startswith("*mut "): return t[5:]
        return None
    if k == "ref":
        t = type_of_origin(f, o[1])
        return ("&" + t) if t else None
    return None

def type_of_place(f, pl):
    if not pl["p"]:
        return f.locals[pl["l"]]
    last = pl["p"][-1]
    if isinstance(last, dict) and "t" in last:
        return last["t"]
    return None

def discr_place_type(f, bb_point_origin):
    return None

def edge_facts(prog, f, bb, label):
    """list of EdgeInfo facts that hold when leaving bb's switch through `label`"""
    if label is None or label[0] not in ("sw", "sw_else"):
        return []
    t = f.term(bb)
    o = switch_info(f, bb)
    dty = t.get("dty")
    if label[0] == "sw":
        return [EdgeInfo(o, True, (label[1],), None, dty)]
    return [EdgeInfo(o, False, tuple(label[1]), None, dty)]

# -- predicates over switch edges ---------------------------------------------------------------

def origin_is_call(o, rx, on=None, f=None):
    """origin is the direct result of a call whose name matches regex rx (optionally: receiver leaf)"""
    if o[0] != "call" or not o[2]:
        return False
    if not re.fullmatch(rx, o[2]):
        return False
    if on is not None and f is not None:
        t = f.term(o[1])
        if receiver_leaf(f, t) != on:
            return False
    return True

def strip_bool_ops(o):
    """peel Not / ==false / !=0 wrappers; returns (inner origin, negated?)"""
    neg = False
    while True:
        if o[0] == "un" and o[1] == "Not":
            neg = not neg; o = o[2]; continue
        if o[0] == "cast":
            o = o[1]; continue
        if o[0] == "call" and o[2] in ("may::likely::likely", "may::likely::unlikely"):
            # value passes through unchanged; handled by caller via arg trace
            return o, neg
        break
    return o, neg

# ------------------------------------------------------------------------------------------------
# atoms: what a switch edge establishes, in a normalised vocabulary

CMP_OPS = ("Eq", "Ne", "Lt", "Le", "Gt", "Ge")
CMP_NEG = {"Eq": "Ne", "Ne": "Eq", "Lt": "Ge", "Ge": "Lt", "Gt": "Le", "Le": "Gt"}
CMP_SWAP = {"Eq": "Eq", "Ne": "Ne", "Lt": "Gt", "Gt": "Lt", "Le": "Ge", "Ge": "Le"}

class Atom:
    """kind: call   (name, site_bb, recv_leaf, truth)
             cmp    (op, a, b)            -- already normalised to the true relation
             variant(origin, name)        -- discriminant(origin) is exactly `name`
             variant_in(origin, names)    -- one of names
             val    (origin, eq, vals)
    """
    def __init__(self, kind, **kw):
        self.kind = kind
        self.__dict__.update(kw)
    def __repr__(self):
        d = {k: (fmt_origin(v) if isinstance(v, Origin) else v) for k, v in self.__dict__.items() if k != "kind"}
        return "Atom(%s %s)" % (self.kind, d)

def edge_atoms(prog, f, bb, label):
    if label is None or label[0] not in ("sw", "sw_else"):
        return []
    o = switch_info(f, bb)
    atoms = _edge_atoms_of(prog, f, bb, label, o)
    # value-level summary of a small helper (inline.ghost_expose): the facts of its return expression hold on this edge too
    seen = 0
    cur = o
    while seen < 3:
        seen += 1
        neg = 0
        x = cur
        wrap = []
        while x[0] in ("un", "cast", "discr") :
            wrap.append(x); x = simplify(x[2] if x[0] == "un" else x[1])
        if x[0] != "call": break
        ct = f.term(x[1])
        gr = ct.get("ghost_ret") if ct.get("t") == "call" else None
        if gr is None: break
        gv = simplify(trace_local(f, gr))
        if gv[0] in ("phi", "local"): break
        # rebuild the wrappers around the ghost value
        for w in reversed(wrap):
            if w[0] == "un": gv = O("un", w[1], gv)
            elif w[0] == "cast": gv = O("cast", gv, w[2], w[3])
            else: gv = O("discr", gv, w[2] if len(w) > 2 else None)
        atoms = atoms + _edge_atoms_of(prog, f, bb, label, gv)
        cur = gv
    return atoms

def _edge_atoms_of(prog, f, bb, label, o):
    t = f.term(bb)
    dty = t.get("dty")
    eq = label[0] == "sw"
    vals = (label[1],) if eq else tuple(label[1])
    atoms = []
    # peel Not
    neg = False
    while o[0] == "un" and o[1] == "Not":
        neg = not neg; o = simplify(o[2])
    truth = None
    if dty == "bool":
        if eq: truth = (vals[0] != 0)
        elif len(vals) == 1: truth = (vals[0] == 0)
        if truth is not None and neg: truth = not truth
    if o[0] == "discr":
        names = dict(o[2]) if len(o) > 2 and o[2] else variant_names(prog, f, o[1])
        if names:
            if eq:
                nm = names.get(vals[0])
                if nm: atoms.append(Atom("variant", origin=o[1], name=nm))
            else:
                rest = [n for v, n in names.items() if v not in vals]
                if len(rest) == 1:
                    atoms.append(Atom("variant", origin=o[1], name=rest[0]))
                else:
                    atoms.append(Atom("variant_in", origin=o[1], names=tuple(rest)))
        # the `?` operator: the discriminant of Try::branch(x) is the discriminant of x under another name
        for a in list(atoms):
            if a.kind == "variant":
                tb = _try_branch_arg(f, a.origin)
                if tb is not None and a.name in ("Continue", "Break"):
                    nm = {"Option": {"Continue": "Some", "Break": "None"}, "Result": {"Continue": "Ok", "Break": "Err"}}[tb[1]][a.name]
                    atoms.append(Atom("variant", origin=simplify(tb[0]), name=nm))
        atoms.append(Atom("val", origin=o, eq=eq, vals=vals))
        return atoms
    if truth is not None:
        if o[0] == "call":
            ct = f.term(o[1])
            atoms.append(Atom("call", name=o[2], site=o[1], recv=receiver_leaf(f, ct), truth=truth, origin=o))
            # the negated twin of a two-valued query is the same fact: is_err() == !is_ok(), is_none() == !is_some()
            for a1, b1 in (("Result::is_err", "Result::is_ok"), ("Result::is_ok", "Result::is_err"), ("Option::is_none", "Option::is_some"), ("Option::is_some", "Option::is_none")):
                if (o[2] or "").endswith(a1):
                    atoms.append(Atom("call", name=(o[2] or "")[:-len(a1)] + b1, site=o[1], recv=receiver_leaf(f, ct), truth=not truth, origin=o))
            # ... and the same fact as matching on the value: `x.is_some()` true == `x` is Some
            for q1, yes, no in (("Option::is_some", "Some", "None"), ("Option::is_none", "None", "Some"), ("Result::is_ok", "Ok", "Err"), ("Result::is_err", "Err", "Ok")):
                if (o[2] or "").endswith(q1) and ct.get("args"):
                    x = simplify(trace_operand(f, ct["args"][0]))
                    while x[0] in ("ref", "deref"): x = x[1]
                    atoms.append(Atom("variant", origin=x, name=yes if truth else no))
        elif o[0] == "bin" and o[1] in CMP_OPS:
            op = o[1] if truth else CMP_NEG[o[1]]
            ca, cb = simplify(o[2]), simplify(o[3])
            atoms.append(Atom("cmp", op=op, a=ca, b=cb))
            # `x == c` / `x != c` is the same fact as taking / not taking the `c` arm of `match x`
            if op in ("Eq", "Ne"):
                for x, c in ((ca, cb), (cb, ca)):
                    cc = c
                    while cc[0] == "cast": cc = cc[1]
                    if cc[0] == "const" and cc[2] is not None and x[0] != "const":
                        try: atoms.append(Atom("val", origin=x, eq=(op == "Eq"), vals=(int(cc[2]),)))
                        except (TypeError, ValueError): pass
        elif o[0] == "bin" and o[1] in ("BitAnd", "BitOr", "BitXor"):
            atoms.append(Atom("boolop", op=o[1], a=simplify(o[2]), b=simplify(o[3]), truth=truth))
        atoms.append(Atom("truth", origin=o, truth=truth))
        return atoms
    atoms.append(Atom("val", origin=o, eq=eq, vals=vals))
    if len(vals) == 1 and o[0] != "discr":
        try:
            c = O("const", "%s" % (vals[0],), int(vals[0]), (), None)
            atoms.append(Atom("cmp", op="Eq" if eq else "Ne", a=o, b=c))
        except (TypeError, ValueError): pass
    return atoms

def cmp_matches(atom, op, pa, pb):
    """atom (kind cmp) establishes `A op B` where pa/pb are predicates on origins; handles swap"""
    if atom.kind != "cmp": return False
    if atom.op == op and pa(atom.a) and pb(atom.b): return True
    if CMP_SWAP[atom.op] == op and pa(atom.b) and pb(atom.a): return True
    return False

def is_const(v):
    def p(o):
        while o[0] == "cast": o = o[1]
        return o[0] == "const" and o[2] is not None and int(o[2]) == v
    return p

def is_call_result(rx, on=None, f=None):
    def p(o):
        while o[0] == "cast": o = o[1]
        if o[0] == "phi":
            return any(p(simplify(a)) for a in o[2])
        return origin_is_call(o, rx, on, f)
    return p

def any_origin(o): return True

# ------------------------------------------------------------------------------------------------
# correlated-branch path exploration (finite abstract execution)

def origin_def_points(f, o, acc=None, depth=0):
    """points whose execution (re)defines a value the origin depends on"""
    if acc is None: acc = set()
    if depth > 12: return acc
    k = o[0]
    if k == "call":
        acc.add(f.term_point(o[1]))
        t = f.term(o[1])
        for a in t.get("args", []):
            origin_def_points(f, simplify(trace_operand(f, a)), acc, depth + 1)
    elif k in ("local", "phi"):
        for (pt, kind, payload) in f.defs().get(o[1], []):
            acc.add(pt)
        if k == "phi":
            for a in o[2]:
                origin_def_points(f, a, acc, depth + 1)
    elif k in ("field", "deref", "ref", "downcast", "clone", "discr", "un", "cast", "index"):
        sub = o[2] if k == "un" else o[1]
        origin_def_points(f, sub, acc, depth + 1)
    elif k == "bin":
        origin_def_points(f, o[2], acc, depth + 1); origin_def_points(f, o[3], acc, depth + 1)
    return acc

class PathExplorer:
    """Explores (point, branch-constraints, automaton state) triples. Branch constraints make
    switches on the same (not redefined) value take consistent directions, which removes the
    infeasible paths a path-insensitive search would report.
    step(pt, node, astate) -> astate' (or None to stop exploring this path)
    on_exit(pt, astate, trail) is called at every Return reached."""
    def __init__(self, prog, f, max_states=60000):
        self.prog = prog; self.f = f; self.max_states = max_states
        self._sw = {}
    def _switch_key(self, bb):
        if bb not in self._sw:
            o = switch_info(self.f, bb)
            # look through Not
            neg = False
            while o[0] == "un" and o[1] == "Not":
                neg = not neg; o = simplify(o[2])
            self._sw[bb] = (fmt_origin(o), frozenset(origin_def_points(self.f, o)), neg, o)
        return self._sw[bb]
    def run(self, start, astate0, step, on_exit, edge_hook=None):
        f = self.f
        seen = set()
        work = [(start, frozenset(), astate0, ())]
        n = 0
        while work:
            pt, cons, ast, trail = work.pop()
            key = (pt, cons, ast)
            if key in seen: continue
            seen.add(key); n += 1
            if n > self.max_states:
                return False
            node = f.node(pt)
            # invalidate constraints whose origin is redefined here
            if cons:
                cons = frozenset(c for c in cons if pt not in c[1])
            ast2 = step(pt, node, ast)
            if ast2 is None:
                continue
            # assignment-driven facts: `_l = Enum::Variant{..}` fixes discriminant(_l) until _l is redefined
            if not f.is_term(pt) and node["s"] == "=" and not node["l"]["p"]:
                rv = node["rv"]
                l = node["l"]["l"]
                idx = None
                if rv["r"] == "agg" and rv["ak"] == "adt":
                    a = norm(rv["adt"])
                    names = STD_VARIANTS.get(a)
                    if names is None and a in self.prog.adts and self.prog.adts[a]["kind"] == "Enum":
                        names = {i: v["n"] for i, v in enumerate(self.prog.adts[a]["variants"])}
                    if names:
                        for i, nme in names.items():
                            if nme == rv["var"]: idx = i
                if idx is not None:
                    lo = simplify(trace_local(f, l))
                    if lo[0] in ("phi", "local"):
                        skey = fmt_origin(O("discr", lo))
                        defs = frozenset(p for (p, k2, pl) in f.defs().get(l, []) if p != pt)
                        cons = frozenset([c for c in cons if c[0] != skey] + [(skey, defs, True, (idx,))])
            if f.is_term(pt):
                k = node["t"]
                if k == "ret":
                    on_exit(pt, ast2, trail); continue
                if k == "sw":
                    skey, defs, neg, o = self._switch_key(pt.bb)
                    cur = None
                    for c in cons:
                        if c[0] == skey: cur = c
                    for (tb, lab) in f.term_succs(pt.bb):
                        eq = lab[0] == "sw"
                        vals = (lab[1],) if eq else tuple(lab[1])
                        # feasibility
                        if cur is not None:
                            ceq, cvals = cur[2], cur[3]
                            if ceq:
                                if eq and vals[0] != cvals[0]: continue
                                if not eq and cvals[0] in vals: continue
                            else:
                                if eq and vals[0] in cvals: continue
                        if eq: newc = (skey, defs, True, vals)
                        else:
                            merged = tuple(sorted(set(vals) | (set(cur[3]) if cur is not None and not cur[2] else set())))
                            newc = (skey, defs, False, merged) if (cur is None or not cur[2]) else cur
                        cons2 = frozenset([c for c in cons if c[0] != skey] + [newc])
                        ast3 = ast2
                        if edge_hook is not None:
                            ast3 = edge_hook(pt, tb, lab, ast2)
                            if ast3 is None: continue
                        work.append((Point(tb, 0), cons2, ast3, trail + (pt.bb,)))
                    continue
            for q, lab in f.succs(pt):
                work.append((q, cons, ast2, trail if not f.is_term(pt) else trail + (pt.bb,)))
        return True
