"""Checker validation: apply one small source mutation at a time to a scratch copy of /repo, run the
owning check against the copy and require (a) the copy still compiles, (b) a VIOLATION whose key
contains the expected instance.  Benign edits must stay silent.
usage: selftest.py [name-substr ...]   (no args = all)"""
import json, os, shutil, subprocess, sys, tempfile, time

HERE = os.path.dirname(os.path.abspath(__file__)); VERIF = os.path.dirname(HERE)
sys.path.insert(0, HERE)
from mutants import MUTANTS, BENIGN

def run(cmd, env=None, cwd=None):
    r = subprocess.run(cmd, env=env, cwd=cwd, stdout=subprocess.PIPE, stderr=subprocess.STDOUT, text=True)
    return r.returncode, r.stdout

def main(argv):
    sel = argv[1:]
    scratch = tempfile.mkdtemp(prefix="may-selftest-")
    evd = tempfile.mkdtemp(prefix="may-selftest-ev-")
    try:
        rc, out = run(["rsync", "-a", "--exclude", "target", "--exclude", ".git", "/repo/", scratch + "/"])
        assert rc == 0, out
        env = dict(os.environ, MAY_REPO=scratch, VERIF_EVIDENCE_DIR=evd)
        results = []
        baseline = {}
        def keys_of(out):
            ks = set()
            for l in out.splitlines():
                if l.startswith("VIOLATION"):
                    rp = l.split("replay=")[1].strip()
                    try: ks.add(json.load(open(rp)).get("key", ""))
                    except Exception: pass
            return ks
        def base(pid):
            if pid not in baseline:
                rc, out = run([os.path.join(VERIF, "check"), pid], env=env)
                baseline[pid] = keys_of(out) if rc != 2 else None
            return baseline[pid]
        for kind, corpus in (("mutant", MUTANTS), ("benign", BENIGN)):
            for m in corpus:
                name = m["name"]
                if sel and not any(s in name for s in sel):
                    continue
                edits = m["edits"]
                base_keys = {pid: base(pid) for pid in m["props"]}
                backups = []
                ok_apply = True
                for (path, old, new) in edits:
                    p = os.path.join(scratch, path)
                    src = open(p).read()
                    if src.count(old) != 1:
                        results.append((name, "SKIP", "anchor text occurs %d times in %s" % (src.count(old), path)))
                        ok_apply = False
                        break
                    backups.append((p, src))
                    open(p, "w").write(src.replace(old, new))
                if ok_apply:
                    verdicts = []
                    for pid in m["props"]:
                        t0 = time.time()
                        rc, out = run([os.path.join(VERIF, "check"), pid], env=env)
                        new = (keys_of(out) - (base_keys.get(pid) or set())) if rc != 2 else set()
                        viol = [l for l in out.splitlines() if l.startswith("VIOLATION") or "VIOLATED" in l or "ANCHOR-MISSING" in l or "FLOOR" in l]
                        if rc == 2:
                            verdicts.append((pid, "BROKEN", out[-600:]))
                        elif kind == "mutant":
                            exp = m.get("expect", "")
                            hit = any(e in k for e in exp.split("|") for k in new)
                            verdicts.append((pid, "CAUGHT" if hit else ("WRONG-REPORT" if new else "MISSED"), "; ".join(sorted(new))[:400]))
                        else:
                            verdicts.append((pid, "SILENT" if not new else "FALSE-ALARM", "; ".join(sorted(new))[:400]))
                    for v in verdicts:
                        results.append((name + "@" + v[0], v[1], v[2]))
                for p, src in reversed(backups):
                    open(p, "w").write(src)
        bad = 0
        for name, verdict, info in results:
            good = verdict in ("CAUGHT", "SILENT")
            if not good: bad += 1
            print("%-12s %s %s" % (verdict, name, "" if good and not os.environ.get("SELFTEST_KEYS") else ("  <- " + info)))
        print("selftest: %d cases, %d not as expected" % (len(results), bad))
        return 1 if bad else 0
    finally:
        shutil.rmtree(scratch, ignore_errors=True)
        shutil.rmtree(evd, ignore_errors=True)

if __name__ == "__main__":
    sys.exit(main(sys.argv))
