"""Normal form modulo helper extraction.

The rules were confirmed by hand on the functions of the reference tree (rules/reference_fns.json: every function id the driver
saw in any feature configuration of that tree). A function that did not exist then has no rule vocabulary: nothing can name it,
no rule is anchored in it. Such a function is analysed *as part of its callers*: every direct call to it is replaced by its MIR
body (locals renumbered, blocks appended, `return` -> assignment to the call's destination + goto the call's target, unwinding
-> the call's cleanup target), recursively up to DEPTH, and the function itself is removed from the program when every call
site was inlined. On the reference tree this is the identity.

Effect: "extract method" refactorings (a prologue/epilogue moved verbatim into a new private fn, a shared tail of two functions,
an accessor wrapped around one atomic load) leave every rule's view of the code unchanged, and a defect hidden in a new helper is
seen in the context of the function that calls it."""
import copy, json, os
import engine
from engine import Fn, Program, callee, norm, PASSTHROUGH_CALLS
engine_alias = engine.ALIAS_FN

DEPTH = 4
REF_PATH = os.path.join(os.path.dirname(os.path.abspath(__file__)), "reference_fns.json")

def load_reference():
    if not os.path.exists(REF_PATH):
        return None
    return set(json.load(open(REF_PATH))["fns"])

def _is_place(d):
    return isinstance(d, dict) and "p" in d and isinstance(d.get("l"), int) and isinstance(d["p"], list)

def _renumber(x, off):
    """shift every local index inside a copied statement / terminator"""
    if isinstance(x, dict):
        if _is_place(x):
            x["l"] += off
            for e in x["p"]:
                if isinstance(e, dict) and "ix" in e: e["ix"] += off
                # field projections carry no locals
            return
        if x.get("s") == "dead" and isinstance(x.get("loc"), int):
            x["loc"] += off
        for k, v in x.items():
            if k == "l" and _is_place(v): _renumber(v, off)
            elif isinstance(v, (dict, list)): _renumber(v, off)
    elif isinstance(x, list):
        for v in x: _renumber(v, off)

def _shift_targets(t, boff):
    if isinstance(t.get("ok"), int): t["ok"] += boff
    if isinstance(t.get("uw"), int): t["uw"] += boff
    if isinstance(t.get("else"), int): t["else"] += boff
    if t["t"] == "sw":
        t["tg"] = [[v, b + boff] for v, b in t["tg"]]
    elif t["t"] == "asm":
        t["tg"] = [b + boff for b in t.get("tg", [])]

def inline_fn(f, prog, want, stats, shadow=False, depth=None):
    """returns a new Fn with every wanted direct call replaced by the callee's body, or f itself when nothing was inlined"""
    mir = None
    work = None
    bi = 0
    blocks = f.blocks; locals_ = f.locals
    inlined = []
    while bi < len(blocks):
        b = blocks[bi]
        t = b["tm"]
        g = None
        if t["t"] == "call":
            p, r = callee(t)
            for cid in (r, p):
                if cid and cid in prog.fns and want(prog.fns[cid]):
                    g = prog.fns[cid]; break
        stack = b.get("_stk", ())
        if g is None or g.id in stack or g.id == f.id or len(stack) >= (depth or DEPTH) or len(t["args"]) != g.argc or (shadow and not isinstance(t.get("ok"), int)):
            if g is not None: stats.setdefault("skipped", set()).add(g.id)
            bi += 1; continue
        if mir is None:
            mir = copy.deepcopy(f.raw["mir"]); blocks = mir["blocks"]; locals_ = mir["locals"]
            b = blocks[bi]; t = b["tm"]
        off = len(locals_); boff = len(blocks)
        locals_.extend(g.locals)
        caller_uw = t.get("uw"); ok = t.get("ok"); dest = t["d"]
        in_cleanup = b["cl"]
        for gb in g.blocks:
            nb = copy.deepcopy(gb)
            nb.pop("_stk", None)
            _renumber(nb["st"], off); _renumber(nb["tm"], off)
            nt = nb["tm"]
            _shift_targets(nt, boff)
            nb["_stk"] = stack + (g.id,)
            nb["file"] = gb.get("file", g.file)
            if in_cleanup: nb["cl"] = True
            if nt["t"] == "ret":
                nb["st"].append({"s": "=", "l": copy.deepcopy(dest), "rv": {"r": "use", "o": {"m": {"l": off, "p": []}}}, "ln": nt.get("ln"), "x": False, "inl_ret": g.id})
                nb["tm"] = {"t": "goto", "ok": ok, "ln": nt.get("ln"), "x": False} if isinstance(ok, int) else {"t": "unreachable", "ln": nt.get("ln"), "x": False}
            elif nt["t"] == "resume":
                nb["tm"] = {"t": "goto", "ok": caller_uw, "ln": nt.get("ln"), "x": False} if isinstance(caller_uw, int) else nt
            elif nt["t"] in ("call", "drop", "assert", "asm") and nt.get("uw") == "continue" and isinstance(caller_uw, int):
                nt["uw"] = caller_uw
            blocks.append(nb)
        # the call site: bind the arguments, jump into the body
        binds = [{"s": "=", "l": {"l": off + 1 + i, "p": []}, "rv": {"r": "use", "o": copy.deepcopy(a)}, "ln": t.get("ln"), "x": False, "inl_arg": g.id}
                 for i, a in enumerate(t["args"])]
        if shadow and isinstance(ok, int):
            # keep the call itself (events that name the callee still match); its result goes to a fresh local, the inlined body
            # that follows produces the value the caller uses
            sh = len(locals_); locals_.append(locals_[dest["l"]] if not dest["p"] else "?")
            t["d"] = {"l": sh, "p": []}
            t["ok"] = len(blocks)
            blocks.append({"cl": in_cleanup, "st": binds, "tm": {"t": "goto", "ok": boff, "ln": t.get("ln"), "x": False, "inl_call": g.id},
                           "_stk": stack + (g.id,), "file": b.get("file", f.file)})
        else:
            b["st"].extend(binds)
            b["tm"] = {"t": "goto", "ok": boff, "ln": t.get("ln"), "x": False, "inl_call": g.id}
        inlined.append(g.id)
        stats.setdefault("sites", []).append((f.id, g.id))
        bi += 1
    if mir is None:
        return f
    raw = dict(f.raw); raw["mir"] = mir
    nf = Fn(raw, prog)
    nf.id = f.id
    nf.inlined = sorted(set(inlined))
    return nf

def normalise(prog, reference=None):
    """-> (program in normal form, stats)"""
    reference = load_reference() if reference is None else reference
    stats = {"new_fns": [], "sites": [], "removed": []}
    if reference is None:
        stats["reference"] = "missing"
        return prog, stats
    new = set(k for k, f in prog.fns.items() if k.split("#")[0] not in reference and k not in reference and "{closure" not in k and f.kind in ("Fn", "AssocFn"))
    stats["new_fns"] = sorted(new)
    if not new:
        return prog, stats
    want = lambda g: g.id in new
    out = {}
    for k, f in prog.fns.items():
        out[k] = inline_fn(f, prog, want, stats)
    # drop helpers whose every call site was inlined
    remaining = {}
    for k, f in out.items():
        for b in f.blocks:
            t = b["tm"]
            if t["t"] in ("call", "tailcall"):
                p, r = callee(t)
                for cid in (r, p):
                    if cid in new and k not in new: remaining.setdefault(cid, set()).add(k)
    called = set(g for _, g in stats["sites"])
    for k in sorted(new):
        if k in called and k not in remaining:
            del out[k]; stats["removed"].append(k)
    # a new function that is only ever used as a *value* (a closure replaced by a named fn and handed to a combinator, a thread
    # spawn, a handler slot) by exactly one function is that function's closure under another syntax: give it a closure id
    def fn_values(x, acc):
        if isinstance(x, dict):
            if "fn" in x and isinstance(x["fn"], dict) and "p" in x["fn"]:
                for cid in (x["fn"].get("r"), x["fn"].get("p")):
                    if cid and norm(cid) in new: acc.add(norm(cid))
            for pr in (x.get("pr") or ()) if isinstance(x.get("pr"), (list, tuple)) else ():
                if isinstance(pr, str) and norm(pr) in new: acc.add(norm(pr))       # `&named_fn` is a promoted constant
            for v in x.values():
                if isinstance(v, (dict, list)): fn_values(v, acc)
        elif isinstance(x, list):
            for v in x:
                if isinstance(v, (dict, list)): fn_values(v, acc)
    users = {}
    for k, f in out.items():
        for b in f.blocks:
            if b.get("ghost"): continue
            acc = set()
            fn_values(b["st"], acc)
            t = b["tm"]
            if t["t"] == "call": fn_values(t["args"], acc)
            for cid in acc:
                if cid != k: users.setdefault(cid, set()).add(k)
    stats["as_closure"] = []
    for cid, us in sorted(users.items()):
        base = set(u.split("::{closure")[0] for u in us)
        if cid in out and cid not in remaining and cid not in called and len(base) == 1:
            nid = "%s::{closure#fn:%s}" % (sorted(base)[0], cid.rsplit("::", 1)[-1])
            g = out.pop(cid); g.id = nid; out[nid] = g
            engine_alias[cid] = nid
            stats["as_closure"].append("%s -> %s" % (cid, nid))
    np = copy.copy(prog)
    np.fns = out
    for f in out.values(): f.prog = np
    np._callers = None; np._closure_parent = None
    np.inline_stats = stats
    return np, stats


# ---------------------------------------------------------------------------------------------------------------------------
# fallback view: value flow through small known helpers
def _small_acyclic(g, max_blocks=14):
    nb = [i for i, b in enumerate(g.blocks) if not b["cl"]]
    if len(nb) > max_blocks: return False
    # acyclic on the normal graph
    color = {}
    def dfs(i):
        color[i] = 1
        for (j, _) in g.term_succs(i):
            c = color.get(j)
            if c == 1: return False
            if c is None and not dfs(j): return False
        color[i] = 2
        return True
    return dfs(0)

def ghost_expose(prog):
    """Value-level summaries of small helpers, realised as *ghost* blocks: for every direct call to a small loop-free function of the
    analysed crates, a renumbered copy of the callee's body is appended to the caller as unreachable blocks (flagged ghost + cleanup,
    skipped by every CFG walk; `return` -> unreachable) together with a ghost block that binds the callee's argument locals to the
    call's operands; the call terminator gets `ghost_ret` = the local holding the copy's return value. Control flow and events are
    untouched - the call stays a call. The only consumer is engine.edge_atoms: a branch on the call's result additionally yields the
    facts of the callee's return expression (`if self.is_canceled()` also establishes `state.load() == 1`). Atoms are only added,
    never removed."""
    memo = {}
    def want(g):
        if g.id not in memo:
            memo[g.id] = (g.id not in PASSTHROUGH_CALLS and "{closure" not in g.id and g.kind in ("Fn", "AssocFn")
                          and g.id.lstrip("<&'a ").startswith("may") and _small_acyclic(g, 8))
        return memo[g.id]
    n = 0
    out = {}
    for k, f in prog.fns.items():
        if not k.lstrip("<&'a ").startswith("may"):
            out[k] = f; continue
        mir = None
        nb0 = len(f.blocks)
        for bi in range(nb0):
            t = f.blocks[bi]["tm"]
            if t["t"] != "call" or not isinstance(t.get("ok"), int): continue
            p, r = callee(t)
            g = None
            for cid in (r, p):
                if cid and cid in prog.fns and want(prog.fns[cid]): g = prog.fns[cid]; break
            if g is None or g.id == f.id or len(t["args"]) != g.argc: continue
            if mir is None:
                mir = copy.deepcopy(f.raw["mir"])
            blocks = mir["blocks"]; locals_ = mir["locals"]
            t = blocks[bi]["tm"]
            off = len(locals_); boff = len(blocks)
            locals_.extend(g.locals)
            for gb in g.blocks[:len(g.raw["mir"]["blocks"])]:
                if gb.get("ghost"): continue
                nb = copy.deepcopy(gb)
                _renumber(nb["st"], off); _renumber(nb["tm"], off)
                _shift_targets(nb["tm"], boff)
                if nb["tm"]["t"] in ("ret", "resume"): nb["tm"] = {"t": "unreachable", "ln": nb["tm"].get("ln"), "x": False}
                nb["tm"].pop("ghost_ret", None)
                nb["cl"] = True; nb["ghost"] = True; nb["file"] = gb.get("file", g.file)
                blocks.append(nb)
            # pad: g may itself contain ghost blocks that we skipped; targets only refer to real blocks, which come first
            binds = [{"s": "=", "l": {"l": off + 1 + i, "p": []}, "rv": {"r": "use", "o": copy.deepcopy(a)}, "ln": t.get("ln"), "x": False}
                     for i, a in enumerate(t["args"])]
            blocks.append({"cl": True, "ghost": True, "st": binds, "tm": {"t": "unreachable", "ln": t.get("ln"), "x": False}, "file": f.file})
            t["ghost_ret"] = off
            t["ghost_fn"] = g.id
            n += 1
        if mir is None:
            out[k] = f
        else:
            raw = dict(f.raw); raw["mir"] = mir
            nf = Fn(raw, prog); nf.id = f.id
            nf.inlined = getattr(f, "inlined", ())
            out[k] = nf
    np = copy.copy(prog)
    np.fns = out
    for f in out.values(): f.prog = np
    np._callers = None; np._closure_parent = None
    np.ghost_sites = n
    return np
