"""Run the mayfacts driver over /repo for one feature configuration; cache by content hash."""
import hashlib, os, shutil, subprocess, sys, tempfile, time, json

VERIF = os.path.dirname(os.path.dirname(os.path.abspath(__file__)))
REPO = os.environ.get("MAY_REPO", "/repo")
DRIVER_DIR = os.path.join(VERIF, "driver")
DRIVER = os.path.join(DRIVER_DIR, "target", "debug", "mayfacts")
CACHE = os.environ.get("VERIF_CACHE") or os.path.join(VERIF, ".cache")

CONFIGS = {
    # name -> cargo feature flags
    "default": [],
    "nosteal": ["--no-default-features", "--features", "io_cancel,io_timeout"],
    "crossbeam": ["--features", "crossbeam_queue_steal"],
    "rand": ["--features", "rand_work_steal"],
    "bare": ["--no-default-features", "--features", "work_steal"],
}

def sysroot():
    return subprocess.check_output(["rustc", "+nightly", "--print", "sysroot"], text=True).strip()

def ensure_driver():
    src = os.path.join(DRIVER_DIR, "src", "main.rs")
    if os.path.exists(DRIVER) and os.path.getmtime(DRIVER) >= os.path.getmtime(src):
        return
    env = dict(os.environ, CARGO_NET_OFFLINE="true")
    r = subprocess.run(["cargo", "build", "--offline"], cwd=DRIVER_DIR, env=env,
                       stdout=subprocess.PIPE, stderr=subprocess.STDOUT, text=True)
    if r.returncode != 0 or not os.path.exists(DRIVER):
        sys.stderr.write(r.stdout)
        raise SystemExit("BROKEN-CHECKER: cannot build the mayfacts driver")

def tree_hash(repo=REPO):
    h = hashlib.sha256()
    files = []
    for root, dirs, fs in os.walk(repo):
        dirs[:] = [d for d in dirs if d not in ("target", ".git")]
        for fn in fs:
            if fn.endswith(".rs") or fn in ("Cargo.toml", "Cargo.lock", "build.rs"):
                files.append(os.path.join(root, fn))
    files.sort()
    for p in files:
        h.update(os.path.relpath(p, repo).encode())
        h.update(b"\0")
        with open(p, "rb") as fh:
            h.update(fh.read())
        h.update(b"\0")
    with open(DRIVER, "rb") as fh:
        h.update(hashlib.sha256(fh.read()).digest())
    return h.hexdigest()[:24]

def _mtime(p):
    try: return os.path.getmtime(p)
    except OSError: return None          # removed by a concurrent check in the meantime

def _evict(keep):
    """drop all but the newest cache entries; tolerant of concurrent checks that evict at the same time"""
    if not os.path.isdir(CACHE):
        return
    try: names = os.listdir(CACHE)
    except OSError: return
    ents = [os.path.join(CACHE, d) for d in names]
    ents = [(e, _mtime(e)) for e in ents if os.path.isdir(e) and os.path.basename(e) != keep]
    ents = [(e, m) for e, m in ents if m is not None]
    ents.sort(key=lambda x: x[1], reverse=True)
    now = time.time()
    for e, _ in ents[4:]:
        # never evict a directory that may be in use by a concurrent check (used within the last 20 min)
        m = _mtime(e)
        if m is not None and now - m > 1200:
            shutil.rmtree(e, ignore_errors=True)
            try: locks = os.listdir(CACHE)
            except OSError: locks = []
            for l in locks:
                if l.startswith(os.path.basename(e) + ".") and l.endswith(".lock"):
                    try: os.unlink(os.path.join(CACHE, l))
                    except OSError: pass

def extract(config="default", repo=None, keep_target=False, log=None):
    """returns dict(dir=<facts dir>, files=[...], target=<target dir or None>, cached=bool, wall_s=..)
    Concurrent checks of the same tree serialise on a lock file: one extracts, the others reuse its facts."""
    import fcntl
    repo = repo or os.environ.get("MAY_REPO", "/repo")
    os.makedirs(CACHE, exist_ok=True)
    with open(os.path.join(CACHE, "driver.lock"), "w") as lk:
        fcntl.flock(lk, fcntl.LOCK_EX)
        ensure_driver()
    th = tree_hash(repo)
    with open(os.path.join(CACHE, "%s.%s.lock" % (th, config)), "w") as lk:
        fcntl.flock(lk, fcntl.LOCK_EX)
        try:
            return _extract_locked(config, repo, keep_target, th)
        finally:
            try: os.utime(os.path.join(CACHE, th))       # mark the tree's cache as recently used
            except OSError: pass

def _extract_locked(config, repo, keep_target, th):
    t0 = time.time()
    out = os.path.join(CACHE, th, config)
    marker = os.path.join(out, "OK")
    want_target = keep_target
    tgt = os.path.join(out, "target")
    if os.path.exists(marker) and (not want_target or os.path.isdir(tgt)):
        files = sorted(os.path.join(out, f) for f in os.listdir(out) if f.endswith(".json"))
        return dict(dir=out, files=files, target=tgt if os.path.isdir(tgt) else None, cached=True,
                    wall_s=time.time() - t0, tree=th)
    if os.path.isdir(out):
        shutil.rmtree(out)
    os.makedirs(out)
    _evict(th)
    td = tgt if want_target else tempfile.mkdtemp(prefix="mayfacts-td-")
    env = dict(os.environ)
    env["LD_LIBRARY_PATH"] = os.path.join(sysroot(), "lib") + ":" + env.get("LD_LIBRARY_PATH", "")
    env["RUSTFLAGS"] = "-Zmir-opt-level=0 -Awarnings"
    env["RUSTC_WORKSPACE_WRAPPER"] = DRIVER
    env["CARGO_TARGET_DIR"] = td
    env["MAYFACTS_OUT"] = out
    env["CARGO_NET_OFFLINE"] = "true"
    cmd = ["cargo", "+nightly", "check", "--offline", "--workspace", "--lib"] + CONFIGS[config]
    r = subprocess.run(cmd, cwd=repo, env=env, stdout=subprocess.PIPE, stderr=subprocess.STDOUT, text=True)
    if not want_target:
        shutil.rmtree(td, ignore_errors=True)
    if r.returncode != 0:
        shutil.rmtree(out, ignore_errors=True)
        sys.stderr.write(r.stdout[-6000:])
        raise SystemExit("BROKEN-CHECKER: cargo check with the mayfacts driver failed (config %s); "
                         "the tree under %s does not compile" % (config, repo))
    files = sorted(os.path.join(out, f) for f in os.listdir(out) if f.endswith(".json"))
    names = set(os.path.basename(f) for f in files)
    if not {"may.json", "may_queue.json"} <= names:
        shutil.rmtree(out, ignore_errors=True)
        raise SystemExit("BROKEN-CHECKER: driver did not write one fact file per workspace crate: %s" % sorted(names))
    with open(marker, "w") as fh:
        fh.write(json.dumps(dict(config=config, tree=th, cmd=cmd)))
    return dict(dir=out, files=files, target=tgt if want_target else None, cached=False,
                wall_s=time.time() - t0, tree=th)

if __name__ == "__main__":
    cfg = sys.argv[1] if len(sys.argv) > 1 else "default"
    print(extract(cfg, keep_target="--keep-target" in sys.argv))
