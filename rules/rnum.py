"""R-NUM: abstract interpretation of the tiny duration encode/decode bodies.
Abstract value of an integer derived from a Duration d with n = d.as_nanos():
        v = max( floor((n + a) / b), k )        [a, b, k non-negative integer constants]
plus the flag `trunc` (a narrowing integer cast without a preceding clamp may wrap).
Anything outside the transfer functions is TOP = undecided (reported, failing closed)."""
from engine import *

TOP = None

class Val:
    def __init__(self, a=0, b=1, k=0, trunc=False, src=None):
        self.a = a; self.b = b; self.k = k; self.trunc = trunc; self.src = src
    def __repr__(self):
        return "max(floor((n+%d)/%d),%d)%s" % (self.a, self.b, self.k, " TRUNC" if self.trunc else "")

UNITS = {"as_nanos": 1, "as_micros": 10**3, "as_millis": 10**6, "as_secs": 10**9,
         "subsec_nanos": None, "subsec_millis": None, "subsec_micros": None, "as_secs_f64": None, "as_secs_f32": None, "as_millis_f64": None}
FROM_UNITS = {"from_nanos": 1, "from_micros": 10**3, "from_millis": 10**6, "from_secs": 10**9}
WIDTH = {"u8": 8, "u16": 16, "u32": 32, "u64": 64, "usize": 64, "u128": 128, "i8": 7, "i16": 15, "i32": 31, "i64": 63, "isize": 63, "i128": 127}

def const_of(o):
    while o[0] == "cast": o = o[1]
    if o[0] == "const" and o[2] is not None:
        try: return int(o[2])
        except Exception: return None
    if o[0] == "const" and o[1] and ("::MAX" in o[1]):
        return 2**64 - 1
    return None

class Interp:
    def __init__(self, prog):
        self.prog = prog
        self.notes = []

    def is_duration_root(self, f, o):
        """origin denotes the Duration being encoded (the Some payload of an Option<Duration> argument, or a Duration argument)"""
        o = simplify(o)
        while o[0] in ("ref", "deref", "clone"): o = o[1]
        if o[0] == "field" and o[1][0] == "downcast":      # (arg as Some).0
            return self.is_duration_root(f, o[1][1])
        if o[0] == "downcast": return self.is_duration_root(f, o[1])
        if o[0] == "arg": return "Duration" in f.locals[o[1]]
        if o[0] == "phi": return all(self.is_duration_root(f, a) for a in o[2])
        return False

    def eval(self, f, o, depth=0, width=128):
        """-> Val or TOP"""
        if depth > 30: return TOP
        o = simplify(o)
        k = o[0]
        if k == "field" and o[2] == "(tuple)" and o[3] == "0":
            return self.eval(f, o[1], depth + 1)          # checked arithmetic tuple
        if k == "cast":
            v = self.eval(f, o[1], depth + 1)
            if v is TOP: return TOP
            if o[2] == "IntToInt":
                src_ty = None
                tgt = WIDTH.get(o[3])
                inner = simplify(o[1])
                if inner[0] == "call":
                    src_ty = type_of_place(f, f.term(inner[1])["d"])
                elif inner[0] in ("local", "phi", "arg"):
                    src_ty = f.locals[inner[1]]
                sw = WIDTH.get(src_ty or "", 128)
                if tgt is not None and tgt < sw:
                    v = Val(v.a, v.b, v.k, True, v.src)
                    self.notes.append("narrowing cast %s -> %s without a clamp (wraps for large durations)" % (src_ty, o[3]))
                return v
            return TOP
        if k == "call":
            t = f.term(o[1])
            name = o[2] or ""
            m = name.rsplit("::", 1)[-1]
            if name.startswith("std::time::Duration::") or name.startswith("core::time::Duration::"):
                if m in UNITS and UNITS[m] is not None and t["args"] and self.is_duration_root(f, trace_operand(f, t["args"][0])):
                    return Val(0, UNITS[m], 0, False, m)
                return TOP
            args = [simplify(trace_operand(f, a)) for a in t["args"]]
            if m == "div_ceil" and len(args) == 2:
                v = self.eval(f, args[0], depth + 1); c = const_of(args[1])
                if v is TOP or c is None or c <= 0 or v.k: return TOP
                return Val(v.a + (c - 1) * v.b, v.b * c, 0, v.trunc, v.src)
            if m in ("max",) and len(args) == 2:
                v = self.eval(f, args[0], depth + 1); c = const_of(args[1])
                if v is TOP: v = self.eval(f, args[1], depth + 1); c = const_of(args[0])
                if v is TOP or c is None: return TOP
                return Val(v.a, v.b, max(v.k, c), v.trunc, v.src)
            if m in ("min", "clamp") and len(args) >= 2:
                v = self.eval(f, args[0], depth + 1); c = const_of(args[-1])
                if v is TOP or c is None or c < 2**31: return TOP       # only saturation at a huge bound is understood
                return Val(v.a, v.b, v.k, False, v.src)
            if m == "try_from" and len(args) == 1:
                v = self.eval(f, args[0], depth + 1)
                if v is TOP: return TOP
                return Val(v.a, v.b, v.k, v.trunc, ("try_from", v.src))
            if m in ("unwrap_or",) and len(args) == 2:
                v = self.eval(f, args[0], depth + 1); c = const_of(args[1])
                if v is TOP or c is None or c < 2**31: return TOP       # saturating fallback
                return Val(v.a, v.b, v.k, False, v.src)
            if m in ("saturating_add",) and len(args) == 2:
                v = self.eval(f, args[0], depth + 1); c = const_of(args[1])
                if v is TOP or c is None: return TOP
                return Val(v.a + c * v.b, v.b, v.k, v.trunc, v.src)
            if m in ("into", "from") and len(args) == 1:
                return self.eval(f, args[0], depth + 1)
            # local helper: interpret its return value with the argument bound
            g = self.prog.fns.get(name)
            if g is not None and len(t["args"]) == 1:
                return self.eval_fn(g, depth + 1)
            return TOP
        if k == "bin":
            op = o[1]
            a, b = simplify(o[2]), simplify(o[3])
            if op in ("Div",):
                v = self.eval(f, a, depth + 1); c = const_of(b)
                if v is TOP or c is None or c <= 0 or v.k: return TOP
                return Val(v.a, v.b * c, 0, v.trunc, v.src)
            if op in ("Add", "AddWithOverflow", "AddUnchecked"):
                # x / c + (x % c != 0)  ==  x.div_ceil(c)
                for q, r in ((a, b), (b, a)):
                    if q[0] == "bin" and q[1] == "Div":
                        c = const_of(simplify(q[3]))
                        if c is not None and c > 0 and self._rem_nonzero(f, r, simplify(q[2]), c):
                            v = self.eval(f, simplify(q[2]), depth + 1)
                            if v is TOP or v.k: return TOP
                            return Val(v.a + (c - 1) * v.b, v.b * c, 0, v.trunc, v.src)
                v = self.eval(f, a, depth + 1); c = const_of(b)
                if v is TOP: v = self.eval(f, b, depth + 1); c = const_of(a)
                if v is TOP or c is None or v.k: return TOP
                return Val(v.a + c * v.b, v.b, 0, v.trunc, v.src)
            if op in ("Mul", "MulWithOverflow"):
                return TOP
            return TOP
        if k == "field" and o[1][0] == "downcast" and o[1][2] == "Ok":
            # the Ok payload of a checked conversion: the converted value itself (the Err side is somebody else's alternative)
            inner = simplify(o[1][1])
            if inner[0] == "call" and (inner[2] or "").rsplit("::", 1)[-1] == "try_from":
                return self.eval(f, inner, depth + 1)
            return TOP
        if k == "phi":
            alts = [simplify(a) for a in o[2]]
            big = [a for a in alts if const_of(a) is not None and const_of(a) >= 2**31]
            rest = [a for a in alts if a not in big]
            if len(big) == 1 and len(rest) == 1 and rest[0][0] == "field" and rest[0][1][0] == "downcast" and rest[0][1][2] == "Ok":
                # match T::try_from(x) { Ok(v) => v, Err(_) => T::MAX }: the saturating fallback written out
                v = self.eval(f, rest[0], depth + 1)
                if v is TOP: return TOP
                return Val(v.a, v.b, v.k, False, v.src)
            vals = [self.eval(f, a, depth + 1) for a in o[2]]
            if any(v is TOP for v in vals): return TOP
            if len(set((v.a, v.b, v.k, v.trunc) for v in vals)) == 1: return vals[0]
            return TOP
        return TOP

    def _rem_nonzero(self, f, o, x, c):
        """o is `(x % c != 0)` converted to an integer (as / from / into)"""
        o = simplify(o)
        for _ in range(6):
            if o[0] == "cast": o = simplify(o[1]); continue
            if o[0] == "call" and (o[2] or "").rsplit("::", 1)[-1] in ("from", "into"):
                t = f.term(o[1])
                if len(t["args"]) != 1: return False
                o = simplify(trace_operand(f, t["args"][0])); continue
            break
        if o[0] != "bin": return False
        op, l, r = o[1], simplify(o[2]), simplify(o[3])
        if op == "Ne" or op == "Gt":
            rem, z = (l, r)
            if const_of(rem) is not None and op == "Ne": rem, z = r, l
            return const_of(z) == 0 and rem[0] == "bin" and rem[1] == "Rem" and simplify(rem[2]) == x and const_of(simplify(rem[3])) == c
        return False

    def eval_fn(self, g, depth=0):
        """abstract value returned by helper g for the Some(d) case; requires that the None case returns const 0"""
        alts = self.return_alternatives(g)
        some = [a for a in alts if not (a[0] == "const")]
        if len(some) != 1: return TOP
        return self.eval(g, some[0], depth + 1)

    def return_alternatives(self, g):
        o = simplify(trace_local(g, 0))
        if o[0] == "phi": return [simplify(a) for a in o[2]]
        return [o]
