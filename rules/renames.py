"""Rename canonicalisation: the rules' vocabulary is the names of the reference tree.

A pure rename (private fn, struct, field, module) changes no behaviour but would leave every rule that names the old item without
its anchor. Before any rule runs, items of the analysed tree that do not exist in the reference are matched against reference items
that no longer exist, by a *shape hash* that ignores every crate-local path, line number and closure position:

  * ADTs   - same kind, same field names and (masked) field types            -> textual alias of the qualified path in every string
                                                                               of the fact files (ids, callees, types, projections)
  * fields - same ADT, same index, same (masked) type, old name gone          -> alias in field projections and ADT tables
  * fns    - identical masked MIR, and same container or same last segment    -> alias applied by engine.norm (ids, callees, closures)

A match must be unique; anything ambiguous is left alone (and then fails closed as before). On the reference tree all maps are empty."""
import hashlib, json, os, re

import engine

_MASK = re.compile(r"may(_queue)?(::(\{\w+#\d+\}|<[^<>]*>|\w+))+")
_CLOS = re.compile(r"\{closure@[^}]*\}")
_ALLOC = re.compile(r"alloc\d+")

def _mask(txt):
    txt = _CLOS.sub("{closure}", txt)
    txt = _ALLOC.sub("alloc", txt)
    return _MASK.sub("§", txt)

def _strip(x):
    if isinstance(x, dict):
        return {k: _strip(v) for k, v in x.items() if k not in ("ln", "x", "file", "line", "dbg")}
    if isinstance(x, list):
        return [_strip(v) for v in x]
    return x

def fn_shape(raw):
    m = raw["mir"]
    txt = json.dumps({"argc": m["argc"], "locals": m["locals"], "blocks": _strip(m["blocks"])}, sort_keys=True)
    return hashlib.sha1(_mask(txt).encode()).hexdigest()[:16], len(m["blocks"])

def adt_shape(a):
    return [a.get("kind"), [[v["n"] if a.get("kind") == "Enum" else "", [[f["n"], _mask(f["t"])] for f in v["fields"]]] for v in a["variants"]]]

def snapshot(dicts):
    """reference data for one configuration"""
    fns = {}
    dup = set()
    for d in dicts:
        for raw in d["fns"]:
            k = engine.norm(raw["id"])
            if k in fns: dup.add(k)
            fns[k] = fn_shape(raw)
    for k in dup: fns.pop(k, None)
    adts = {engine.norm(a["path"]): adt_shape(a) for d in dicts for a in d["adts"]}
    # direct callers of every local function (closures count for their parent): when a helper disappears (inlined by hand into its
    # callers) the callers inherit the helper's entry in the who-may-call tables
    callers = {}
    local = set(fns) | dup
    for d in dicts:
        for raw in d["fns"]:
            k = engine.norm(raw["id"]).split("::{closure")[0]
            for b in raw["mir"]["blocks"]:
                t = b["tm"]
                if t["t"] in ("call", "tailcall") and "fn" in t["f"]:
                    for cid in (t["f"]["fn"].get("r"), t["f"]["fn"].get("p")):
                        c = engine.norm(cid) if cid else None
                        if c in local and c != k: callers.setdefault(c, set()).add(k)
    return {"fns": {k: list(v) for k, v in fns.items() if "{closure" not in k}, "adts": adts, "callers": {k: sorted(v) for k, v in callers.items()}}

def _replace_strings(x, pairs):
    if isinstance(x, dict):
        return {k: _replace_strings(v, pairs) for k, v in x.items()}
    if isinstance(x, list):
        return [_replace_strings(v, pairs) for v in x]
    if isinstance(x, str) and "may" in x:
        for rx, new in pairs:
            x = rx.sub(new, x)
    return x

def canonicalise(dicts, ref):
    """-> (dicts with ADT/module renames undone textually, report); sets engine.ALIAS_FN / engine.FIELD_ALIAS"""
    report = {"adts": {}, "fields": {}, "fns": {}}
    engine.ALIAS_FN.clear(); engine.FIELD_ALIAS.clear(); engine._GENERIC_CACHE.clear()
    if not ref:
        return dicts, report
    # ---- ADTs
    cur_adts = {engine.norm(a["path"]): a for d in dicts for a in d["adts"]}
    missing = {k: v for k, v in ref["adts"].items() if k not in cur_adts}
    new = {k: adt_shape(a) for k, a in cur_adts.items() if k not in ref["adts"]}
    pairs = []
    for nk, sh in sorted(new.items()):
        c = [mk for mk, msh in missing.items() if msh == sh]
        if len(c) > 1:
            c2 = [mk for mk in c if mk.rsplit("::", 1)[-1] == nk.rsplit("::", 1)[-1] or mk.rsplit("::", 1)[0] == nk.rsplit("::", 1)[0]]
            c = c2 if len(c2) == 1 else []
        if len(c) == 1 and sh[1] and any(v[1] for v in sh[1]):      # never alias field-less types by shape
            report["adts"][nk] = c[0]
            pairs.append((re.compile(re.escape(nk) + r"(?![\w])"), c[0]))
            missing.pop(c[0])
    if pairs:
        dicts = [_replace_strings(d, pairs) for d in dicts]
        cur_adts = {engine.norm(a["path"]): a for d in dicts for a in d["adts"]}
    # ---- fields (same ADT path, same position, same masked type, old name no longer present)
    for k, a in cur_adts.items():
        r = ref["adts"].get(k)
        if not r: continue
        sh = adt_shape(a)
        if sh == r or len(sh[1]) != len(r[1]): continue
        for (vn, fs), (rvn, rfs) in zip(sh[1], r[1]):
            if vn != rvn or len(fs) != len(rfs): continue
            names = set(n for n, _ in fs)
            for (n, t), (rn, rt) in zip(fs, rfs):
                if n != rn and t == rt and rn not in names:
                    engine.FIELD_ALIAS[(k, n)] = rn
                    report["fields"]["%s.%s" % (k, n)] = rn
    if engine.FIELD_ALIAS:
        def walk(x):
            if isinstance(x, dict):
                if x.get("r") == "agg" and x.get("adt") and x.get("fields"):
                    k = engine.norm(x["adt"])
                    x["fields"] = [engine.FIELD_ALIAS.get((k, n), n) for n in x["fields"]]
                if "f" in x and "a" in x and isinstance(x["f"], str) and isinstance(x["a"], str):
                    x["f"] = engine.FIELD_ALIAS.get((engine.norm(x["a"]), x["f"]), x["f"])
                for v in x.values():
                    if isinstance(v, (dict, list)): walk(v)
            elif isinstance(x, list):
                for v in x:
                    if isinstance(v, (dict, list)): walk(v)
        for d in dicts:
            walk(d["fns"])
        for d in dicts:
            for a in d["adts"]:
                k = engine.norm(a["path"])
                for v in a["variants"]:
                    for f in v["fields"]:
                        f["n"] = engine.FIELD_ALIAS.get((k, f["n"]), f["n"])
    # ---- enum variants (same enum path, same position, same fields, old name gone); applied only when the new name is not a variant
    # name of any other enum of the analysed crates (downcast projections carry no enum path)
    var_alias = {}
    all_variant_names = {}
    for k, a in cur_adts.items():
        if a.get("kind") == "Enum":
            for v in a["variants"]: all_variant_names.setdefault(v["n"], set()).add(k)
    for k, a in cur_adts.items():
        r = ref["adts"].get(k)
        if not r or a.get("kind") != "Enum": continue
        sh = adt_shape(a)
        if sh == r or len(sh[1]) != len(r[1]): continue
        names = set(vn for vn, _ in sh[1])
        for (vn, fs), (rvn, rfs) in zip(sh[1], r[1]):
            if vn != rvn and fs == rfs and rvn not in names and all_variant_names.get(vn) == {k}:
                var_alias[vn] = (k, rvn)
                report.setdefault("variants", {})["%s::%s" % (k, vn)] = rvn
    if var_alias:
        def walkv(x):
            if isinstance(x, dict):
                if "dc" in x and x["dc"] in var_alias: x["dc"] = var_alias[x["dc"]][1]
                if "var" in x and x.get("var") in var_alias and engine.norm(x.get("adt") or "") == var_alias[x["var"]][0]: x["var"] = var_alias[x["var"]][1]
                if "v" in x and "a" in x and x.get("v") in var_alias and engine.norm(x["a"]) == var_alias[x["v"]][0]: x["v"] = var_alias[x["v"]][1]
                if "vars" in x and isinstance(x["vars"], list) and engine.norm(x.get("adt") or "") in set(k for k, _ in var_alias.values()):
                    x["vars"] = [[d0, var_alias[n][1] if n in var_alias and var_alias[n][0] == engine.norm(x["adt"]) else n] for d0, n in x["vars"]]
                if "n" in x and "fields" in x and x["n"] in var_alias: x["n"] = var_alias[x["n"]][1]
                if isinstance(x.get("pr"), list):        # names mentioned by a promoted constant: "<enum path>::<variant>"
                    x["pr"] = ["%s::%s" % (var_alias[n.rsplit("::", 1)[-1]][0], var_alias[n.rsplit("::", 1)[-1]][1])
                               if isinstance(n, str) and "::" in n and n.rsplit("::", 1)[-1] in var_alias and engine.norm(n.rsplit("::", 1)[0]) == var_alias[n.rsplit("::", 1)[-1]][0] else n for n in x["pr"]]
                for v in x.values():
                    if isinstance(v, (dict, list)): walkv(v)
            elif isinstance(x, list):
                for v in x:
                    if isinstance(v, (dict, list)): walkv(v)
        for d in dicts:
            walkv(d["fns"]); walkv(d["adts"])
    # ---- functions
    cur = {}
    dup = set()
    for d in dicts:
        for raw in d["fns"]:
            k = engine.norm(raw["id"])
            if k in cur: dup.add(k)
            cur[k] = raw
    missing = {k: v for k, v in ref["fns"].items() if k not in cur}
    for nk, raw in sorted(cur.items()):
        if nk in ref["fns"] or "{closure" in nk or nk in dup or not missing: continue
        h, nb = fn_shape(raw)
        c = [mk for mk, (mh, mnb) in missing.items() if mh == h]
        if not c: continue
        same_cont = [mk for mk in c if mk.rsplit("::", 1)[0] == nk.rsplit("::", 1)[0]]
        same_name = [mk for mk in c if mk.rsplit("::", 1)[-1] == nk.rsplit("::", 1)[-1]]
        pick = same_cont if len(same_cont) == 1 else (same_name if len(same_name) == 1 else (c if len(c) == 1 and nb >= 3 else []))
        if len(pick) == 1:
            engine.ALIAS_FN[nk] = pick[0]
            report["fns"][nk] = pick[0]
            missing.pop(pick[0])
    engine._GENERIC_CACHE.clear()
    return dicts, report
