"""Regenerate /verif/MANIFEST.json from the property modules that exist."""
import json, os, sys, importlib
HERE = os.path.dirname(os.path.abspath(__file__)); VERIF = os.path.dirname(HERE)
sys.path.insert(0, HERE)
props = [json.loads(l) for l in open(os.path.join(VERIF, "properties.jsonl"))]
checks = []; na = []
for p in props:
    pid = p["id"]
    path = os.path.join(HERE, "props", pid + ".py")
    if not os.path.exists(path):
        na.append(dict(property_id=pid, reason="check not built yet in this session (see DESIGN.md §4 for the planned static rules)"))
        continue
    mod = importlib.import_module("props." + pid)
    if getattr(mod, "NOT_APPLICABLE", None):
        na.append(dict(property_id=pid, reason=mod.NOT_APPLICABLE)); continue
    checks.append({
        "property_id": pid,
        "quick_cmd": "./check %s --tier quick" % pid,
        "thorough_cmd": "./check %s --tier thorough" % pid,
        "evidence_file": "evidence/%s.json" % pid,
        "replay_cmd_template": "./check replay {path}",
        "engine": "mayfacts+rules",
        "level_claimed": {
            "category": "other",
            "text": ("Exact static decision of structural necessary conditions of the property (" + mod.EXPLANATION +
                     ("; further clauses: " + mod.EXPLANATION_2 if getattr(mod, "EXPLANATION_2", "") else "") +
                     ") on the type-checked, drop-elaborated MIR of the current tree; it decides those clauses on every control-flow path, "
                     "not the behaviour over all schedules/inputs."),
            "design_ref": "DESIGN.md §4 " + pid,
        },
        "level_note": "Trusted: rustc nightly MIR, the mayfacts extractor, the rule tables (instances confirmed by reading), the crates "
                      "generator/crossbeam/parking_lot/nix/std; only cfg(linux) code is analysed. Not decided: " + getattr(mod, "NOT_DECIDED", ""),
        "technique": getattr(mod, "TECHNIQUE", "static analysis: custom MIR dataflow/CFG rules (rustc_private driver + rule engine)"),
    })
man = {
    "version": 1,
    "setup_cmd": "cd driver && CARGO_NET_OFFLINE=true cargo build --offline",
    "hooks": {"guard": "none", "enable": "no hooks: checks analyse the unmodified sources",
              "baseline_off_cmd": "cd /repo && cargo test --workspace --no-fail-fast --offline",
              "source_commits": [], "add_only": True},
    "engines": [
        {"name": "mayfacts", "path": "driver/", "serves_properties": [c["property_id"] for c in checks],
         "kind_free_text": "rustc_private driver run as RUSTC_WORKSPACE_WRAPPER under cargo +nightly check; dumps MIR/ADT/impl facts as JSON"},
        {"name": "rules", "path": "rules/", "serves_properties": [c["property_id"] for c in checks],
         "kind_free_text": "Python rule engine: point-level CFG queries (must-pass-through, guarded exit, pairing), value tracing, callee summaries, who-may-call, memory-order floors"},
    ],
    "checks": checks,
    "not_applicable": na,
    "notes": "Static analysis only; nothing in may is executed by any check. See DESIGN.md.",
}
json.dump(man, open(os.path.join(VERIF, "MANIFEST.json"), "w"), indent=1, ensure_ascii=False)
print("checks:", [c["property_id"] for c in checks], "n/a:", [n["property_id"] for n in na])
