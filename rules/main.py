"""Entry point:  main.py <Cxx> [--tier quick|thorough]   |   replay <file>   |   dump <config> <fn-substr>
Decides the obligations of one property on /repo's current tree (static analysis only), rewrites
/verif/evidence/<Cxx>.json, prints KNOWN-FINDING / VIOLATION lines, exit 0/1 (2 = broken checker)."""
import importlib, json, os, sys, time, traceback

HERE = os.path.dirname(os.path.abspath(__file__))
VERIF = os.path.dirname(HERE)
sys.path.insert(0, HERE)

import extract
from engine import Program
from lib import Ctx

EVID = os.environ.get("VERIF_EVIDENCE_DIR") or os.path.join(VERIF, "evidence")
KNOWN = os.path.join(VERIF, "KNOWN_FINDINGS.jsonl")

def load_known():
    known, fixed = {}, {}
    if os.path.exists(KNOWN):
        for line in open(KNOWN):
            line = line.strip()
            if not line or line.startswith("#"):
                continue
            d = json.loads(line)
            if d.get("status") == "known":
                known[d["key"]] = d
            elif d.get("status") == "fixed":
                fixed[d["key"]] = d
    return known, fixed

def load_program(config, keep_target=False):
    info = extract.extract(config, keep_target=keep_target)
    dicts = [json.load(open(p)) for p in info["files"]]
    ren = {}; ref = None
    if os.environ.get("VERIF_NO_INLINE") != "1":
        import renames
        refp = os.path.join(HERE, "reference_fns.json")
        ref = json.load(open(refp)).get("configs", {}).get(config) if os.path.exists(refp) else None
        dicts, ren = renames.canonicalise(dicts, ref)
    prog = Program(dicts)
    prog.extract_info = info
    prog.renames = ren
    ref_callers = (ref or {}).get("callers", {}) if os.environ.get("VERIF_NO_INLINE") != "1" else {}
    if os.environ.get("VERIF_NO_INLINE") != "1":
        import inline
        prog, st = inline.normalise(prog)
        import cfgnorm
        prog = cfgnorm.normalise(prog)
        prog = inline.ghost_expose(prog)
        prog.extract_info = info
        prog.renames = ren
        prog.inline_stats = st
        if st.get("reference") == "missing":
            raise SystemExit("BROKEN-CHECKER: rules/reference_fns.json is missing (python3 rules/main.py gen-reference)")
    prog.ref_callers = ref_callers
    return prog

def run_property(pid, tier):
    mod = importlib.import_module("props." + pid)
    configs = list(getattr(mod, "CONFIGS_QUICK", ["default"]))
    if tier == "thorough":
        configs = list(getattr(mod, "CONFIGS_THOROUGH", configs))
    all_obs = []
    fns = set()
    nfn_analysed = 0
    rule_counts = {}
    extra = {}
    for cfg in configs:
        prog = load_program(cfg, keep_target=getattr(mod, "NEEDS_TARGET", False) and cfg == "default")
        ctx = Ctx(pid, prog, cfg, tier)
        mod.check(ctx)
        # controls (anti-vacuity): evaluated by the property module itself if it defines them
        all_obs.extend(ctx.obs)
        fns |= set("%s@%s" % (f, cfg) for f in ctx.fns_touched)
        nfn_analysed += len(prog.fns)
        for k, v in ctx.rule_counts.items():
            rule_counts["%s@%s" % (k, cfg)] = v
        for k, v in getattr(ctx, "extra", {}).items():
            extra["%s@%s" % (k, cfg)] = v
        st = getattr(prog, "inline_stats", None) or {}
        extra["normalisation@%s" % cfg] = {
            "renames_undone": getattr(prog, "renames", {}) or {},
            "functions_not_in_reference": st.get("new_fns", []),
            "inlined_call_sites": ["%s <- %s" % x for x in st.get("sites", [])][:60],
            "helper_value_summaries": getattr(prog, "ghost_sites", 0),
        }
    floors = dict(getattr(mod, "FLOORS", {}))
    fj = os.path.join(HERE, "floors.json")
    if os.path.exists(fj):
        floors.update(json.load(open(fj)).get(pid, {}))
    return mod, configs, all_obs, fns, nfn_analysed, rule_counts, floors, extra

def main(argv):
    if len(argv) >= 2 and argv[1] == "dump":
        from mirfmt import fmt_fn
        prog = load_program(argv[2])
        for k, f in sorted(prog.fns.items()):
            if argv[3] in k:
                print(fmt_fn(f.raw)); print()
        return 0
    if len(argv) >= 2 and argv[1] == "scan-all":
        # tooling mode (mutation sweeps, corpus scans): load the default configuration once and run every property's
        # rules on it; prints one JSON object {pid: [keys of obligations that are not discharged]}. No evidence is written.
        pids = argv[2:] or sorted(f[:-3] for f in os.listdir(os.path.join(HERE, "props")) if f[0] == "C" and f.endswith(".py"))
        out = {}
        try:
            prog = load_program("default", keep_target=True)
        except SystemExit as e:
            print(json.dumps({"error": str(e)})); return 2
        known, _ = load_known()
        for pid in pids:
            mod = importlib.import_module("props." + pid)
            ctx = Ctx(pid, prog, "default", "quick")
            try:
                mod.check(ctx)
            except Exception as e:
                out[pid] = ["%s|INTERNAL-ERROR|%s" % (pid, type(e).__name__)]; continue
            out[pid] = sorted(set(o.key for o in ctx.obs if o.status != "discharged" and o.key not in known))
            floors = dict(getattr(mod, "FLOORS", {}))
            fj = os.path.join(HERE, "floors.json")
            if os.path.exists(fj): floors.update(json.load(open(fj)).get(pid, {}))
            per_rule = {}
            for k in set((o.rule, o.key) for o in ctx.obs): per_rule[k[0]] = per_rule.get(k[0], 0) + 1
            if any(per_rule.get(r, 0) < n for r, n in floors.items()): out[pid].append("%s|FLOOR" % pid)
        print(json.dumps(out)); return 0
    if len(argv) >= 2 and argv[1] == "gen-reference":
        # freeze the function ids of the current tree (all feature configurations) as the reference for inline.normalise
        os.environ["VERIF_NO_INLINE"] = "1"
        import renames
        ids = set(); cfgs = {}
        for cfg in extract.CONFIGS:
            ids |= set(load_program(cfg).fns.keys())
            info = extract.extract(cfg)
            cfgs[cfg] = renames.snapshot([json.load(open(p)) for p in info["files"]])
        ids = sorted(i for i in ids if "{closure" not in i)
        json.dump({"tree": extract.tree_hash(os.environ.get("MAY_REPO", "/repo")), "fns": ids, "configs": cfgs}, open(os.path.join(HERE, "reference_fns.json"), "w"), indent=0)
        print("reference: %d function ids" % len(ids)); return 0
    if len(argv) >= 2 and argv[1] == "replay":
        d = json.load(open(argv[2]))
        pid = d["property_id"]; key = d["key"]
        mod, configs, obs, *_ = run_property(pid, d.get("tier", "quick"))
        hit = [o for o in obs if o.key == key]
        if not hit:
            print("replay: obligation %s no longer exists on this tree" % key); return 1
        bad = [o for o in hit if o.status != "discharged"]
        for o in hit:
            print("replay: %s [%s] %s %s %s" % (o.key, o.cfg, o.status, o.site or "", o.msg))
            if o.detail: print("        path: " + o.detail)
        return 1 if bad else 0

    pid = argv[1]
    tier = os.environ.get("VERIF_TIER", "quick")
    if "--tier" in argv:
        tier = argv[argv.index("--tier") + 1]
    seed = int(os.environ.get("VERIF_SEED", "0") or 0)
    t0 = time.time()
    os.makedirs(os.path.join(EVID, "violations"), exist_ok=True)
    evfile = os.path.join(EVID, pid + ".json")
    try:
        mod, configs, obs, fns, nfn, rule_counts, floors, extra = run_property(pid, tier)
    except SystemExit as e:
        print(str(e)); return 2
    except Exception:
        traceback.print_exc()
        print("BROKEN-CHECKER: internal error while deciding %s" % pid)
        return 2

    known, fixed = load_known()
    # floors: fail closed when fewer instances were evaluated than were confirmed by hand
    floor_fail = []
    per_rule = {}
    seen_k = set()
    for o in obs:
        if o.cfg == configs[0] and o.key not in seen_k:
            seen_k.add(o.key)
            per_rule[o.rule] = per_rule.get(o.rule, 0) + 1
    for rule, n in floors.items():
        if per_rule.get(rule, 0) < n:
            floor_fail.append("rule %s evaluated %d obligation(s), floor is %d" % (rule, per_rule.get(rule, 0), n))

    violations = []
    kf_lines = []
    seen_keys = set()
    for o in obs:
        if o.status == "discharged":
            continue
        if o.key in known:
            if o.key not in seen_keys:
                kf_lines.append("KNOWN-FINDING: property=%s %s %s" % (pid, o.key, known[o.key].get("what", o.msg)))
            seen_keys.add(o.key)
            continue
        violations.append(o)

    # evidence
    distinct = sorted(set(o.key for o in obs))
    nontrivial = sorted(set(o.key for o in obs if o.nontrivial and o.status != "anchor-missing"))
    samples = []
    shown = set()
    for o in obs:
        if o.key in shown: continue
        shown.add(o.key)
        samples.append(o.to_json())
    wall = time.time() - t0
    ev = {
        "property_id": pid,
        "tier": tier,
        "seed": seed,
        "level": "other",
        "coverage": {
            "explanation": getattr(mod, "EXPLANATION", "") + ("; further clauses: " + mod.EXPLANATION_2 if getattr(mod, "EXPLANATION_2", "") else ""),
            "obligations": len(distinct),
            "discharged": len(set(o.key for o in obs if o.status == "discharged") - set(o.key for o in obs if o.status != "discharged")),
            "evaluations": len(obs),
            "distinct_nontrivial": len(nontrivial),
            "rule": "one evaluation = one rule instance (obligation) decided on the MIR of one feature configuration; "
                    "distinct = distinct obligation keys; non-trivial = the anchor events of the instance were found in "
                    "the function body (not discharged vacuously)",
            "samples": samples[:400],
            "functions_in_program": nfn,
            "functions_analysed": len(fns),
            "configs": configs,
            "rule_instances": rule_counts,
            "floors": floors,
            "known_findings": sorted(seen_keys),
            "fixed_findings": sorted(k for k in fixed if k.startswith(pid + "|")),
            "checker_cmd": "./check %s --tier %s" % (pid, tier),
            "trusted_base": ["rustc nightly MIR construction and drop elaboration", "mayfacts driver (fact extraction)",
                             "rule tables in /verif/rules/props/%s.py (instances confirmed by reading)" % pid,
                             "crates generator, crossbeam, parking_lot, nix, std"],
            "exhaustive": False,
            "undecided": getattr(mod, "NOT_DECIDED", ""),
        },
        "assumptions": getattr(mod, "ASSUMPTIONS", []),
        "wall_s": round(wall, 2),
        "violations": len(violations) + len(floor_fail),
    }
    ev["coverage"].update(extra)
    with open(evfile, "w") as fh:
        json.dump(ev, fh, indent=1, ensure_ascii=False)

    for l in kf_lines:
        print(l)
    rc = 0
    n = 0
    for o in violations:
        n += 1
        rp = os.path.join(EVID, "violations", "%s-%d.json" % (pid, n))
        with open(rp, "w") as fh:
            json.dump(dict(property_id=pid, tier=tier, key=o.key, config=o.cfg, status=o.status, what=o.msg,
                           site=o.site, detail=o.detail), fh, indent=1, ensure_ascii=False)
        print("  %s %s [%s]: %s" % (o.status.upper(), o.site or "", o.cfg, o.msg))
        if o.detail:
            print("      path: %s" % o.detail)
        print("VIOLATION property=%s replay=%s" % (pid, rp))
        rc = 1
    for m in floor_fail:
        n += 1
        rp = os.path.join(EVID, "violations", "%s-%d.json" % (pid, n))
        with open(rp, "w") as fh:
            json.dump(dict(property_id=pid, tier=tier, key="%s|FLOOR" % pid, what=m), fh)
        print("  FLOOR: %s (a rule matches fewer sites than were confirmed by hand — failing closed)" % m)
        print("VIOLATION property=%s replay=%s" % (pid, rp))
        rc = 1
    print("%s: %d obligations (%d distinct, %d non-trivial), %d violated/missing, %d known finding(s), configs=%s, %.1fs" %
          (pid, len(obs), len(distinct), len(nontrivial), len(violations), len(seen_keys), ",".join(configs), wall))
    return rc

if __name__ == "__main__":
    sys.exit(main(sys.argv))
