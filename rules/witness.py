"""E3: type-level witnesses. A witness file marks offending lines with `//~ E0xxx`. It passes iff the
file fails to compile with exactly those error codes on exactly those lines AND its twin (the same
file without the marked lines) compiles — which excludes 'fails for the wrong reason'."""
import glob, json, os, re, subprocess, tempfile, shutil
import extract

WDIR = os.path.join(extract.VERIF, "witness")

def _rmeta(target):
    deps = os.path.join(target, "debug", "deps")
    c = sorted(glob.glob(os.path.join(deps, "libmay-*.rmeta")), key=os.path.getmtime)
    if not c:
        raise SystemExit("BROKEN-CHECKER: no libmay rmeta under %s" % deps)
    return deps, c[-1]

def _compile(src_path, deps, rmeta, out_dir):
    env = dict(os.environ)
    cmd = ["rustc", "+nightly", "--edition", "2021", "--crate-type", "lib", "--emit=metadata", "--error-format=json",
           "-Awarnings", "-L", "dependency=" + deps, "--extern", "may=" + rmeta, "--out-dir", out_dir, src_path]
    r = subprocess.run(cmd, stdout=subprocess.PIPE, stderr=subprocess.PIPE, text=True, env=env)
    errs = []
    for line in r.stderr.splitlines():
        try: d = json.loads(line)
        except Exception: continue
        if d.get("level") == "error" and d.get("spans"):
            code = (d.get("code") or {}).get("code")
            lines = sorted(set(s["line_start"] for s in d["spans"] if s.get("is_primary")))
            errs.append((code, lines, d.get("message", "")[:160]))
    return r.returncode, errs

def run_witness(ctx, name, prog_target):
    """evaluates witness/<name>.rs; records one obligation per marked line + one for the twin"""
    if getattr(ctx, "_importing", False):
        return          # rules of this property are being imported by another one: its type-level witnesses are not part of the import
    if prog_target is None:
        # the facts of this tree were cached by a check that did not keep the build directory: build it now
        prog_target = extract.extract(ctx.cfg, keep_target=True)["target"]
    path = os.path.join(WDIR, name + ".rs")
    if not os.path.exists(path):
        ctx.missing("R-TYPE", name, "witness", "witness file %s missing" % path); return
    deps, rmeta = _rmeta(prog_target)
    src = open(path).read().splitlines()
    marks = {}
    for i, l in enumerate(src, 1):
        m = re.search(r"//~\s*(E\d{4})\s*(.*)$", l)
        if m: marks[i] = (m.group(1), m.group(2).strip() or l.strip())
    tmp = tempfile.mkdtemp(prefix="may-witness-")
    try:
        # twin
        twin = os.path.join(tmp, name + "_twin.rs")
        open(twin, "w").write("\n".join(("" if (i in marks) else l) for i, l in enumerate(src, 1)) + "\n")
        rc, errs = _compile(twin, deps, rmeta, tmp)
        if rc != 0:
            ctx.ob("R-TYPE", "witness:" + name, "twin-compiles", False,
                   "BROKEN WITNESS: the twin of %s (without the offending lines) does not compile: %s" % (name, errs[:2]), path)
            return
        ctx.ob("R-TYPE", "witness:" + name, "twin-compiles", True, "the twin of %s compiles against the current crate" % name, path, nontrivial=False)
        unexpected = []
        for ln, (code, label) in sorted(marks.items()):
            # one compile per offending line (errors of different compiler phases / deduplicated
            # obligations would otherwise hide each other)
            one = os.path.join(tmp, "%s_l%d.rs" % (name, ln))
            open(one, "w").write("\n".join((l if (i == ln or i not in marks) else "") for i, l in enumerate(src, 1)) + "\n")
            rc, errs = _compile(one, deps, rmeta, tmp)
            by_line = {}
            for c, lines, msg in errs:
                for l2 in lines:
                    by_line.setdefault(l2, []).append((c, msg))
            got = by_line.get(ln, [])
            ok = any(c == code for c, _ in got)
            unexpected += [(l2, c) for l2, cs in by_line.items() if l2 != ln for c, _ in cs]
            key = re.sub(r"[^A-Za-z0-9_:<>,& ]+", "", label)[:80] or ("line%d" % ln)
            ctx.ob("R-TYPE", "witness:" + name, key, ok,
                   "rejected by the compiler as required (%s): %s" % (code, label) if ok else
                   "the compiler ACCEPTS (or rejects for another reason %s) what must not type-check: %s" % ([c for c, _ in got], label),
                   "%s:%d" % (path, ln))
        if unexpected:
            ctx.ob("R-TYPE", "witness:" + name, "no-unexpected-errors", False, "BROKEN WITNESS: unexpected errors %s" % unexpected[:3], path)
    finally:
        shutil.rmtree(tmp, ignore_errors=True)
