// C05: Mutex<T> is Sync only for T: Send; the guard borrows the mutex
use may::sync::Mutex;
use std::rc::Rc;
fn is_sync<T: Sync>() {}
fn is_send<T: Send>() {}
pub fn w() {
    is_sync::<Mutex<i32>>();
    is_send::<Mutex<i32>>();
    is_sync::<Mutex<std::cell::Cell<i32>>>();
    is_sync::<Mutex<Rc<i64>>>(); //~ E0277 Mutex<Rc<_>> is not Sync
    is_send::<Mutex<Rc<i32>>>(); //~ E0277 Mutex<Rc<_>> is not Send
}
pub fn w2() {
    let m = Mutex::new(1);
    let g = m.lock().unwrap();
    drop(m); //~ E0505 the mutex cannot be moved or dropped while its guard is alive
    let _ = *g;
}
