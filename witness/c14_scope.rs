// C14: a scoped coroutine may borrow from the enclosing frame (no 'static needed) but not from
// data that dies inside the scope closure.
pub fn ok_borrow_enclosing() {
    let v = vec![1, 2, 3];
    let mut total = 0;
    may::coroutine::scope(|s| {
        may::go!(s, || {
            total = v.iter().sum::<i32>();
        });
    });
    assert_eq!(total, 6);
}
pub fn bad_borrow_inner() {
    may::coroutine::scope(|s| {
        let inner = vec![1, 2, 3];
        let _h = unsafe { s.spawn(|| inner.len()) }; //~ E0373 a scoped coroutine cannot borrow data owned by the scope closure itself
    });
}
