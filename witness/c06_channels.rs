// C06: the single-consumer / single-producer endpoints must not be shareable between threads,
// and must not be clonable; they stay Send. mpmc endpoints and mpsc::Sender are Clone.
use may::sync::{mpmc, mpsc, spsc};
fn is_send<T: Send>() {}
fn is_sync<T: Sync>() {}
fn is_clone<T: Clone>() {}
pub fn w() {
    is_send::<mpsc::Receiver<i32>>();
    is_send::<spsc::Receiver<i32>>();
    is_send::<spsc::Sender<i32>>();
    is_send::<mpsc::Sender<i32>>();
    is_clone::<mpsc::Sender<i32>>();
    is_clone::<mpmc::Sender<i32>>();
    is_clone::<mpmc::Receiver<i32>>();
    is_sync::<mpsc::Receiver<i32>>(); //~ E0277 mpsc::Receiver is not Sync
    is_sync::<spsc::Receiver<i32>>(); //~ E0277 spsc::Receiver is not Sync
    is_sync::<spsc::Sender<i32>>(); //~ E0277 spsc::Sender is not Sync
    is_clone::<mpsc::Receiver<i32>>(); //~ E0277 mpsc::Receiver is not Clone
    is_clone::<spsc::Receiver<i32>>(); //~ E0277 spsc::Receiver is not Clone
    is_clone::<spsc::Sender<i32>>(); //~ E0277 spsc::Sender is not Clone
    is_send::<mpsc::Receiver<std::rc::Rc<i32>>>(); //~ E0277 a channel of non-Send values is not Send
}
