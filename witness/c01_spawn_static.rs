// C01: spawn requires 'static (the coroutine may outlive the caller)
pub fn w() {
    let local = 5;
    let _ok = unsafe { may::coroutine::spawn(move || local + 1) };
    let _h5 = unsafe { may::coroutine::spawn(|| local + 1) }; //~ E0373 spawn rejects a closure borrowing a local
    let _h6 = unsafe { may::coroutine::Builder::new().spawn(|| local + 2) }; //~ E0373 Builder::spawn rejects a closure borrowing a local
}
