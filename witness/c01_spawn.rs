// C01: spawn requires Send (a coroutine migrates between worker threads)
use std::rc::Rc;
use std::sync::Arc;
pub fn w() {
    let a = Arc::new(1);
    let h = unsafe { may::coroutine::spawn(move || *a) };
    let _ = h.join();
    let owned = vec![1, 2, 3];
    let _h2 = may::go!(move || owned.len());
    let r = Rc::new(1u8);
    let _h3 = unsafe { may::coroutine::spawn(move || { let r = r; *r }) }; //~ E0277 spawn rejects a closure capturing Rc
    let r2 = Rc::new(1u16);
    let _h4 = unsafe { may::coroutine::Builder::new().spawn(move || { let r2 = r2; *r2 }) }; //~ E0277 Builder::spawn rejects a closure capturing Rc
    let r3 = Rc::new(1u32);
    let _h5 = unsafe { may::coroutine::spawn(move || r3) }; //~ E0277 spawn rejects a non-Send return value
}
