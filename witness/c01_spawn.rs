// C01: spawn requires Send + 'static (a coroutine migrates between worker threads and may outlive the caller)
use std::rc::Rc;
use std::sync::Arc;
pub fn w() {
    let a = Arc::new(1);
    let h = unsafe { may::coroutine::spawn(move || *a) };
    let _ = h.join();
    let owned = vec![1, 2, 3];
    let _h2 = may::go!(move || owned.len());
    let r = Rc::new(1);
    let _h3 = unsafe { may::coroutine::spawn(move || *r) }; //~ E0277 spawn rejects a closure capturing Rc
    let r2 = Rc::new(1);
    let _h4 = may::go!(move || *r2); //~ E0277 go! rejects a closure capturing Rc
    let local = 5;
    let _h5 = unsafe { may::coroutine::spawn(|| local + 1) }; //~ E0373 spawn rejects a closure borrowing a local
    let _h6 = unsafe { may::coroutine::Builder::new().spawn(|| local + 1) }; //~ E0373 Builder::spawn rejects a closure borrowing a local
}
