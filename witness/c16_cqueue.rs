// C16: every event is consumed exactly once - the single-consumer event queue of a Cqueue is polled by its owner only,
// so a Cqueue must not be shareable between coroutines / threads (finding F33). The select coroutines reach it through
// their EventSender, which stays Send.
fn is_send<T: Send>() {}
fn is_sync<T: Sync>() {}
pub fn w() {
    is_send::<may::cqueue::EventSender<'static>>();
    let _f: fn(&may::cqueue::Cqueue, Option<std::time::Duration>) -> Result<may::cqueue::Event, may::cqueue::PollError> = may::cqueue::Cqueue::poll;
    is_sync::<may::cqueue::Cqueue>(); //~ E0277 Cqueue is not Sync
    is_send::<&'static may::cqueue::Cqueue>(); //~ E0277 a shared reference to a Cqueue is not Send
}
