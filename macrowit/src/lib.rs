//! Macro-expansion witness crate: never run. The mayfacts driver dumps the MIR of these functions so
//! that the rule engine checks the *expansion* of may's macros (order of top half / send / bottom
//! half, what select! returns, distinct coroutine_local keys) instead of macro text.
#![allow(unused)]

#[inline(never)] pub fn marker_top_a() -> i32 { 1 }
#[inline(never)] pub fn marker_top_b() -> i32 { 2 }
#[inline(never)] pub fn marker_bottom_a(_: i32) {}
#[inline(never)] pub fn marker_bottom_b(_: i32) {}
#[inline(never)] pub fn marker_body_a() {}
#[inline(never)] pub fn marker_body_b() {}

pub fn w_select() -> usize {
    may::select!(
        a = marker_top_a() => marker_bottom_a(a),
        b = marker_top_b() => marker_bottom_b(b)
    )
}

pub fn w_oneshot(cq: &may::cqueue::Cqueue) {
    may::cqueue_add_oneshot!(cq, 0, a = marker_top_a() => marker_bottom_a(a));
}

pub fn w_loop(cq: &may::cqueue::Cqueue) {
    may::cqueue_add!(cq, 1, a = marker_top_a() => marker_bottom_a(a));
}

pub fn w_join() {
    may::join!(marker_body_a(), marker_body_b());
}

may::coroutine_local!(static KEY_ONE: u32 = 1);
may::coroutine_local!(static KEY_TWO: u32 = 2);

pub fn w_local() -> u32 {
    KEY_ONE.with(|a| KEY_TWO.with(|b| *a + *b))
}
